(* C12 (primitive level), the error direction: whenever the in-memory reader reports an error, the
   asynchronous reader -- started in the same idle state on the same byte string -- reports an error
   too (never a value, never a panic).
   The two readers do NOT fail at the same place: the in-memory readers reject a container size that
   exceeds the remaining input (rw_ext::checked_container_size) and a byte-string length that exceeds
   it, the asynchronous readers cannot know what remains and start reading elements.  They then run
   out of input, because every value consumes at least one byte -- except a compact bool whose value
   was carried by the field header (pending_read_bool_value).  So the proof needs
     (1) a progress lemma for the asynchronous reader ([aread_ag1] / [aread_ag_bool]), and
     (2) the invariant that no bool value is pending at the entry of any read except the TBool read
         that directly follows a compact bool field header ([npb]); a stale pending value would be a
         counterexample (see [stale_pending_counterexample]). *)
From PV Require Import Thrift.Async Proofs.VarintP Proofs.TablesP Proofs.PrimP Proofs.HeaderP Proofs.RoundtripP Proofs.TotalP Proofs.AsyncP.
From Coq Require Import ZifyN ZifyNat ZifyBool.
Open Scope Z_scope.

(* no bool value pending *)
Definition npb (s : rst) : Prop := r_pbool (rc s) = None.

(* ================================================================== *)
(* (1) progress of the asynchronous reader: never a panic; a value costs at least [k] bytes and
   leaves no bool pending; under [P] (enough fuel) an error is a genuine one *)
Definition ag {A} (P : Prop) (o : res (A * rst)) (s : rst) (k : nat) : Prop :=
  match o with
  | Ok (_, s') => (blen s' + k <= blen s)%nat /\ npb s'
  | Err e => P -> e <> EOutOfFuel
  | Panic _ => False
  end.

Lemma ag_weaken {A} P (o : res (A * rst)) s k k' : (k' <= k)%nat -> ag P o s k -> ag P o s k'.
Proof. destruct o as [[a s']| |]; cbn; auto. intros ? [? ?]. split; auto. lia. Qed.

Lemma ag_imp {A} (P Q : Prop) (o : res (A * rst)) s k : (Q -> P) -> ag P o s k -> ag Q o s k.
Proof. destruct o as [[a s']| |]; cbn; auto. Qed.

Lemma ag_bind {A B} P (o : res (A * rst)) (f : A * rst -> res (B * rst)) s k1 k2 :
  ag P o s k1 ->
  (forall a s', (blen s' + k1 <= blen s)%nat -> npb s' -> ag P (f (a, s')) s' k2) ->
  ag P (bind o f) s (k1 + k2).
Proof.
  destruct o as [[a s']| |]; cbn [bind ag]; auto. intros [H1 Hn] H2.
  specialize (H2 a s' H1 Hn). destruct (f (a, s')) as [[b s'']| |]; cbn [ag] in *; auto.
  destruct H2 as [H2 Hn2]. split; auto. lia.
Qed.

Lemma ag_map {A B} P (o : res (A * rst)) (g : A -> B) s k :
  ag P o s k -> ag P (let* (x, s') := o in Ok (g x, s')) s k.
Proof. destruct o as [[a s']| |]; cbn; auto. Qed.

Lemma npb_set_buf s b : npb s -> npb (set_buf s b).
Proof. auto. Qed.

Lemma a_take_ag P n s : npb s -> ag P (a_take n s) s n.
Proof.
  intros Hn. unfold a_take. destruct (take n (rbuf s)) as [[a r]|] eqn:E; cbn [ag]; [|discriminate].
  apply take_some in E as [E1 E2]. split; [|exact Hn]. unfold blen, set_buf. cbn [rbuf]. rewrite E1, app_length. lia.
Qed.

Lemma a_byte_ag P s : npb s -> ag P (a_byte s) s 1.
Proof. intros. unfold a_byte. apply ag_map, a_take_ag; auto. Qed.
Lemma a_i8_ag P s : npb s -> ag P (a_i8 s) s 1.
Proof. intros. unfold a_i8. apply (ag_map _ _ (fun a => wrap_s 8 (of_le a))), a_take_ag; auto. Qed.
Lemma a_fixed_ag P p n bits s : npb s -> ag P (a_fixed p n bits s) s n.
Proof. intros. unfold a_fixed. apply (ag_map _ _ (fun a => wrap_s bits (unfx p a))), a_take_ag; auto. Qed.

Lemma a_varint_ag P m s : npb s -> ag P (a_varint m s) s 1.
Proof.
  intros Hn. unfold a_varint, read_var_u64. pose proof (rd_var_good m 0 0 (rbuf s)) as H.
  destruct (rd_var m 0 0 (rbuf s)) as [[n r]| |]; cbn [ag]; [|intros _; discriminate|exact H].
  split; [|exact Hn]. unfold blen, set_buf. cbn [rbuf]. lia.
Qed.

Lemma a_zz_ag P m bits s : npb s ->
  ag P (let* (n, s) := a_varint m s in Ok (wrap_s bits (unzigzag n), s)) s 1.
Proof. intros. apply (ag_map _ _ (fun n => wrap_s bits (unzigzag n))), a_varint_ag; auto. Qed.

Lemma a_i16_ag P p s : npb s -> ag P (a_i16 p s) s 1.
Proof. intros. destruct p; cbn [a_i16]; try (apply a_zz_ag; auto); apply (ag_weaken _ _ _ 2); try lia; apply a_fixed_ag; auto. Qed.
Lemma a_i32_ag P p s : npb s -> ag P (a_i32 p s) s 1.
Proof. intros. destruct p; cbn [a_i32]; try (apply a_zz_ag; auto); apply (ag_weaken _ _ _ 4); try lia; apply a_fixed_ag; auto. Qed.
Lemma a_i64_ag P p s : npb s -> ag P (a_i64 p s) s 1.
Proof. intros. destruct p; cbn [a_i64]; try (apply a_zz_ag; auto); apply (ag_weaken _ _ _ 8); try lia; apply a_fixed_ag; auto. Qed.
Lemma a_double_ag P p s : npb s -> ag P (a_double p s) s 1.
Proof.
  intros. unfold a_double. apply (ag_weaken _ _ _ 8); [lia|].
  apply (ag_map _ _ (fun a => match p with PBinary => of_be a | _ => of_le a end)), a_take_ag; auto.
Qed.
Lemma a_uuid_ag P s : npb s -> ag P (a_uuid s) s 1.
Proof. intros. apply (ag_weaken _ _ _ 16); [lia|]. apply a_take_ag; auto. Qed.

Lemma a_bytes_ag P p s : npb s -> ag P (a_bytes p s) s 1.
Proof.
  intros Hn. destruct p; cbn [a_bytes].
  1,2: change 1%nat with (1 + 0)%nat; eapply ag_bind; [apply a_i32_ag; auto|]; intros n s1 H1 Hn1;
       destruct (n <? 0); [cbn; discriminate|];
       destruct (n <=? Z.of_nat (length (rbuf s1))); [|cbn; discriminate];
       apply (ag_weaken _ _ _ (Z.to_nat n)); [lia|apply a_take_ag; auto].
  change 1%nat with (1 + 0)%nat. eapply ag_bind; [apply a_varint_ag; auto|]. intros n s1 H1 Hn1.
  destruct (wrap_u 32 n <=? Z.of_nat (length (rbuf s1))); [|cbn; discriminate].
  apply (ag_weaken _ _ _ (Z.to_nat (wrap_u 32 n))); [lia|apply a_take_ag; auto].
Qed.

Lemma a_ttype_ag P s : npb s -> ag P (a_ttype s) s 1.
Proof.
  intros Hn. unfold a_ttype. pose proof (a_byte_ag P s Hn) as G.
  destruct (a_byte s) as [[b s1]| |]; cbn [bind ag] in *; auto.
  destruct (ttype_of_byte b); cbn [ag]; [exact G|discriminate].
Qed.

(* a bool: one byte, unless its value is pending *)
Lemma a_bool_ag1 P p s : npb s -> ag P (a_bool p s) s 1.
Proof.
  intros Hn. destruct p; cbn [a_bool].
  1,2: apply (ag_map _ _ (fun b => negb (b =? 0))), a_i8_ag; auto.
  unfold npb in Hn. rewrite Hn.
  pose proof (a_byte_ag P s Hn) as G.
  destruct (a_byte s) as [[b s1]| |]; cbn [bind ag] in *; auto.
  destruct (ctype_of_code b) as [[]|]; cbn [ag]; try discriminate; exact G.
Qed.

(* the TBool read: whatever is pending, it costs >= 0 bytes and, for compact, clears the pending value;
   for the binary protocols the pending value is never set, hence the side condition *)
Lemma a_bool_ag0 P p s : (p = PCompact \/ npb s) -> ag P (a_bool p s) s 0.
Proof.
  intros Hc. destruct (r_pbool (rc s)) eqn:E; [|apply (ag_weaken _ _ _ 1); [lia|apply a_bool_ag1; exact E]].
  destruct Hc as [->|Hn]; [|unfold npb in Hn; congruence].
  cbn [a_bool]. rewrite E. cbn [ag]. split; [unfold blen; cbn; lia|reflexivity].
Qed.

Lemma a_struct_begin_ag P p s : npb s -> ag P (a_struct_begin p s) s 0.
Proof. intros Hn. unfold a_struct_begin. destruct p; cbn; (split; [unfold blen; cbn; lia|exact Hn]). Qed.
Lemma a_struct_end_ag P p s : npb s -> ag P (a_struct_end p s) s 0.
Proof.
  intros Hn. unfold a_struct_end. destruct p; cbn [r_struct_end]; try (cbn; split; [unfold blen; cbn; lia|exact Hn]).
  destruct (r_stack (rc s)); [cbn; discriminate|]. cbn. split; [unfold blen; cbn; lia|exact Hn].
Qed.

(* protocols that never set the pending bool value *)
Definition pend_ok (p : pk) (ty : ttype) (s : rst) : Prop := npb s \/ (p = PCompact /\ ty = TBool).

(* a field header: at least one byte; afterwards a bool value is pending only if the field is a
   (compact) bool, never after a Stop *)
Lemma a_field_begin_ag p s : npb s ->
  match a_field_begin p s with
  | Ok (h, s') => (blen s' + 1 <= blen s)%nat /\ pend_ok p (fst h) s' /\ (fst h = TStop -> npb s')
  | Err e => e <> EOutOfFuel
  | Panic _ => False
  end.
Proof.
  intros Hn. destruct p; cbn [a_field_begin].
  1,2: pose proof (a_ttype_ag True s Hn) as G1; destruct (a_ttype s) as [[ty s1]| |]; cbn [bind ag] in *; auto;
       destruct G1 as [G1 Hn1];
       (destruct ty; try (cbn [fst]; split; [lia|]; split; [left; exact Hn1|intros _; exact Hn1]));
       match goal with |- context [a_i16 ?p s1] => pose proof (a_i16_ag True p s1 Hn1) as G2; destruct (a_i16 p s1) as [[id s2]| |] end;
       cbn [bind ag fst] in *; auto; destruct G2 as [G2 Hn2];
       (split; [lia|]; split; [left; exact Hn2|intros _; exact Hn2]).
  pose proof (a_byte_ag True s Hn) as G1. destruct (a_byte s) as [[b s1]| |]; cbn [bind ag] in *; auto.
  destruct G1 as [G1 Hn1].
  set (X := if b mod 16 =? ctype_code CBooleanTrue then _ else _).
  assert (GX : match X with
               | Ok (ty, s2) => blen s2 = blen s1 /\ pend_ok PCompact ty s2 /\ (ty = TStop -> npb s2)
               | Err e => e <> EOutOfFuel
               | Panic _ => False
               end).
  { subst X.
    destruct (b mod 16 =? ctype_code CBooleanTrue); [split; [reflexivity|]; split; [right; auto|discriminate]|].
    destruct (b mod 16 =? ctype_code CBooleanFalse); [split; [reflexivity|]; split; [right; auto|discriminate]|].
    destruct (ctype_of_code (b mod 16)) as [ct|]; [|discriminate].
    destruct (ttype_of_ctype ct); [|discriminate]. split; [reflexivity|]. split; [left; exact Hn1|intros _; exact Hn1]. }
  destruct X as [[ty s2]| |]; cbn [bind]; auto. destruct GX as (Eb & Hp & Hs).
  assert (GY : match (if negb (b / 16 =? 0)
            then Ok (ty, Some (wrap_s 16 (r_last (rc s2) + b / 16)),
                     set_rc s2 (mkR (wrap_s 16 (r_last (rc s2) + b / 16)) (r_stack (rc s2)) (r_pbool (rc s2)) (r_pfield (rc s2))))
            else let* (id, s) := a_i16 PCompact s2 in
                 Ok (ty, Some id, set_rc s (mkR id (r_stack (rc s)) (r_pbool (rc s)) (r_pfield (rc s))))) with
               | Ok (h, s') => (blen s' + 1 <= blen s)%nat /\ pend_ok PCompact (fst h) s' /\ (fst h = TStop -> npb s')
               | Err e => e <> EOutOfFuel
               | Panic _ => False
               end).
  { destruct (negb (b / 16 =? 0)).
    - cbn [fst]. split; [unfold blen in *; cbn [set_rc rbuf]; lia|]. split.
      + destruct Hp as [Hp|Hp]; [left; exact Hp|right; exact Hp].
      + exact Hs.
    - (* the id is read with the varint reader, which leaves the context alone *)
      cbn [a_i16]. unfold a_varint, read_var_u64. pose proof (rd_var_good maxsize_16 0 0 (rbuf s2)) as G.
      destruct (rd_var maxsize_16 0 0 (rbuf s2)) as [[n r]| |]; cbn [bind]; auto; [|discriminate].
      cbn [fst]. split; [unfold blen in *; cbn [set_rc set_buf rbuf]; lia|]. split.
      + destruct Hp as [Hp|Hp]; [left; exact Hp|right; exact Hp].
      + exact Hs. }
  destruct ty; try exact GY.
  cbn [fst]. split; [lia|]. split; [left; apply Hs; reflexivity|intros _; apply Hs; reflexivity].
Qed.

Lemma a_coll_begin_ag P p s : npb s -> ag P (a_coll_begin p s) s 1.
Proof.
  intros Hn. destruct p; cbn [a_coll_begin].
  1,2: change 1%nat with (1 + 0)%nat; eapply ag_bind; [apply a_ttype_ag; auto|]; intros et s1 H1 Hn1;
       change 0%nat with (0 + 0)%nat; eapply ag_bind; [apply (ag_weaken _ _ _ 1); [lia|apply a_i32_ag; auto]|];
       intros n s2 H2 Hn2; cbn; split; [lia|exact Hn2].
  change 1%nat with (1 + 0)%nat. eapply ag_bind; [apply a_byte_ag; auto|]. intros h s1 H1 Hn1.
  destruct (ttype_of_nibble (h mod 16)) as [et| |] eqn:En; cbn [bind ag];
    [|intros _; eapply ttype_of_nibble_err; eauto|eapply ttype_of_nibble_nopanic; eauto].
  destruct (negb (h / 16 =? 15)); [cbn; split; [lia|exact Hn1]|].
  change 0%nat with (0 + 0)%nat. eapply ag_bind; [apply (ag_weaken _ _ _ 1); [lia|apply a_varint_ag; auto]|].
  intros n s2 H2 Hn2. cbn. split; [lia|exact Hn2].
Qed.

Lemma a_map_begin_ag P p s : npb s -> ag P (a_map_begin p s) s 1.
Proof.
  intros Hn. destruct p; cbn [a_map_begin].
  1,2: change 1%nat with (1 + 0)%nat; eapply ag_bind; [apply a_ttype_ag; auto|]; intros kt s1 H1 Hn1;
       change 0%nat with (0 + 0)%nat; eapply ag_bind; [apply (ag_weaken _ _ _ 1); [lia|apply a_ttype_ag; auto]|]; intros vt s1' H1' Hn1';
       change 0%nat with (0 + 0)%nat; eapply ag_bind; [apply (ag_weaken _ _ _ 1); [lia|apply a_i32_ag; auto]|];
       intros n s2 H2 Hn2; cbn; split; [lia|exact Hn2].
  change 1%nat with (1 + 0)%nat. eapply ag_bind; [apply a_varint_ag; auto|]. intros n s1 H1 Hn1.
  destruct (wrap_s 32 n =? 0); [cbn; split; [lia|exact Hn1]|].
  change 0%nat with (0 + 0)%nat. eapply ag_bind; [apply (ag_weaken _ _ _ 1); [lia|apply a_byte_ag; auto]|].
  intros h s2 H2 Hn2.
  destruct (ttype_of_nibble (h / 16)) as [kt| |] eqn:Ek; cbn [bind ag];
    [|intros _; eapply ttype_of_nibble_err; eauto|eapply ttype_of_nibble_nopanic; eauto].
  destruct (ttype_of_nibble (h mod 16)) as [vt| |] eqn:Ev; cbn [bind ag];
    [|intros _; eapply ttype_of_nibble_err; eauto|eapply ttype_of_nibble_nopanic; eauto].
  split; [lia|exact Hn2].
Qed.

(* --- loops --- *)
Section ALoopsAg1.
  Variable arec : ttype -> rst -> res (tval * rst).
  Variable f' : nat.
  Hypothesis Harec1 : forall ty s, npb s -> ag (blen s < f')%nat (arec ty s) s 1.

  Lemma aelems_ag : forall m et n s acc, npb s ->
    ag ((blen s < m)%nat /\ (blen s < f')%nat) (elems_loop arec m et n s acc) s 0.
  Proof.
    induction m as [|m IH]; intros et n s acc Hn; cbn [elems_loop].
    - destruct (n <=? 0); [cbn; split; [lia|exact Hn]|cbn; lia].
    - destruct (n <=? 0); [cbn; split; [lia|exact Hn]|].
      pose proof (Harec1 et s Hn) as G.
      destruct (arec et s) as [[x s1]| |]; cbn [bind ag] in *; auto; [|intros [? ?]; apply G; lia].
      destruct G as [G Hn1].
      specialize (IH et (n - 1) s1 (x :: acc) Hn1).
      destruct (elems_loop arec m et (n - 1) s1 _) as [[l s2]| |]; cbn [ag] in *; auto.
      + destruct IH as [I1 I2]. split; [lia|exact I2].
      + intros [? ?]. apply IH. lia.
  Qed.

  Lemma apairs_ag : forall m kt vt n s acc, npb s ->
    ag ((blen s < m)%nat /\ (blen s < f')%nat) (pairs_loop arec m kt vt n s acc) s 0.
  Proof.
    induction m as [|m IH]; intros kt vt n s acc Hn; cbn [pairs_loop].
    - destruct (n <=? 0); [cbn; split; [lia|exact Hn]|cbn; lia].
    - destruct (n <=? 0); [cbn; split; [lia|exact Hn]|].
      pose proof (Harec1 kt s Hn) as G.
      destruct (arec kt s) as [[a s1]| |]; cbn [bind ag] in *; auto; [|intros [? ?]; apply G; lia].
      destruct G as [G Hn1].
      pose proof (Harec1 vt s1 Hn1) as G2.
      destruct (arec vt s1) as [[b s2]| |]; cbn [bind ag] in *; auto; [|intros [? ?]; apply G2; lia].
      destruct G2 as [G2 Hn2].
      specialize (IH kt vt (n - 1) s2 ((a, b) :: acc) Hn2).
      destruct (pairs_loop arec m kt vt (n - 1) s2 _) as [[l s3]| |]; cbn [ag] in *; auto.
      + destruct IH as [I1 I2]. split; [lia|exact I2].
      + intros [? ?]. apply IH. lia.
  Qed.

  (* a container that announces more elements than bytes remain cannot be completed *)
  Lemma aelems_starve : forall m et n s acc, npb s -> Z.of_nat (blen s) < n ->
    exists e, elems_loop arec m et n s acc = Err e.
  Proof.
    induction m as [|m IH]; intros et n s acc Hn Hlt; cbn [elems_loop].
    - replace (n <=? 0) with false by lia. eauto.
    - replace (n <=? 0) with false by lia.
      pose proof (Harec1 et s Hn) as G.
      destruct (arec et s) as [[x s1]| |]; cbn [bind ag] in *; [|eauto|destruct G].
      destruct G as [G Hn1]. apply IH; auto. lia.
  Qed.

  Lemma apairs_starve : forall m kt vt n s acc, npb s -> Z.of_nat (blen s) < n ->
    exists e, pairs_loop arec m kt vt n s acc = Err e.
  Proof.
    induction m as [|m IH]; intros kt vt n s acc Hn Hlt; cbn [pairs_loop].
    - replace (n <=? 0) with false by lia. eauto.
    - replace (n <=? 0) with false by lia.
      pose proof (Harec1 kt s Hn) as G.
      destruct (arec kt s) as [[a s1]| |]; cbn [bind ag] in *; [|eauto|destruct G].
      destruct G as [G Hn1].
      pose proof (Harec1 vt s1 Hn1) as G2.
      destruct (arec vt s1) as [[b s2]| |]; cbn [bind ag] in *; [|eauto|destruct G2].
      destruct G2 as [G2 Hn2]. apply IH; auto. lia.
  Qed.
End ALoopsAg1.

Section ALoopsAgF.
  Variable p : pk.
  Variable arec : ttype -> rst -> res (tval * rst).
  Variable f' : nat.
  Hypothesis Harec1 : forall ty s, npb s -> ag (blen s < f')%nat (arec ty s) s 1.
  Hypothesis HarecB : p = PCompact -> forall s, ag (blen s < f')%nat (arec TBool s) s 0.

  Lemma arec_pend ty s : pend_ok p ty s -> ag (blen s < f')%nat (arec ty s) s 0.
  Proof.
    intros [Hn|[Hc ->]]; [apply (ag_weaken _ _ _ 1); [lia|apply Harec1; exact Hn]|apply HarecB, Hc].
  Qed.

  Lemma afields_ag : forall n s acc, npb s ->
    ag ((blen s < n)%nat /\ (blen s <= f')%nat) (afields_loop p arec n s acc) s 1.
  Proof.
    induction n as [|n IH]; intros s acc Hn; [cbn; lia|].
    cbn [afields_loop].
    pose proof (a_field_begin_ag p s Hn) as G.
    destruct (a_field_begin p s) as [[h s1]| |]; cbn [bind ag] in *; auto.
    destruct G as (G1 & Gp & Gs).
    destruct (ttype_eqb_spec (fst h) TStop) as [Es|Es]; [cbn; split; [lia|auto]|].
    pose proof (arec_pend (fst h) s1 Gp) as G2.
    destruct (arec (fst h) s1) as [[x s2]| |]; cbn [bind ag] in *; auto; [|intros [? ?]; apply G2; lia].
    destruct G2 as [G2 Hn2].
    specialize (IH s2 ((match snd h with Some i => i | None => 0 end, x) :: acc) Hn2).
    destruct (afields_loop p arec n s2 _) as [[fs s3]| |]; cbn [ag] in *; auto.
    - destruct IH as [I1 I2]. split; [lia|exact I2].
    - intros [? ?]. apply IH. lia.
  Qed.

End ALoopsAgF.

Lemma aread_ag_bool p f s : (p = PCompact \/ npb s) -> ag (blen s < f)%nat (aread_val p f TBool s) s 0.
Proof.
  intros Hc. destruct f as [|f]; [cbn; lia|]. cbn [aread_val]. apply (ag_map _ _ VBool), a_bool_ag0, Hc.
Qed.

Theorem aread_ag1 p : forall f ty s, npb s -> ag (blen s < f)%nat (aread_val p f ty s) s 1.
Proof.
  induction f as [|f IH]; intros ty s Hn; [cbn; lia|].
  assert (IHB : p = PCompact -> forall s0, ag (blen s0 < f)%nat (aread_val p f TBool s0) s0 0).
  { intros Hc s0. apply aread_ag_bool. left. exact Hc. }
  cbn [aread_val].
  destruct ty; try (cbn; intros _; discriminate).
  - apply (ag_map _ _ VBool), a_bool_ag1, Hn.
  - apply (ag_map _ _ VI8), a_i8_ag, Hn.
  - apply (ag_map _ _ VDouble), a_double_ag, Hn.
  - apply (ag_map _ _ VI16), a_i16_ag, Hn.
  - apply (ag_map _ _ VI32), a_i32_ag, Hn.
  - apply (ag_map _ _ VI64), a_i64_ag, Hn.
  - apply (ag_map _ _ VBinary), a_bytes_ag, Hn.
  - (* struct *)
    pose proof (a_struct_begin_ag True p s Hn) as G0.
    destruct (a_struct_begin p s) as [[u s0]| |]; cbn [bind ag] in *; [|intros _; apply G0; exact I|exact G0].
    destruct G0 as [G0 Hn0].
    pose proof (afields_ag p (aread_val p f) f IH IHB (S f) s0 [] Hn0) as G1.
    destruct (afields_loop p (aread_val p f) (S f) s0 []) as [[fs s1]| |]; cbn [bind ag] in *; [|intros ?; apply G1; lia|exact G1].
    destruct G1 as [G1 Hn1].
    pose proof (a_struct_end_ag True p s1 Hn1) as G2.
    destruct (a_struct_end p s1) as [[u2 s2]| |]; cbn [bind ag] in *; [|intros _; apply G2; exact I|exact G2].
    destruct G2 as [G2 Hn2]. split; [lia|exact Hn2].
  - (* map *)
    pose proof (a_map_begin_ag True p s Hn) as G0.
    destruct (a_map_begin p s) as [[h s0]| |]; cbn [bind ag] in *; [|intros _; apply G0; exact I|exact G0].
    destruct G0 as [G0 Hn0].
    pose proof (apairs_ag (aread_val p f) f IH (S f) (fst (fst h)) (snd (fst h)) (snd h) s0 [] Hn0) as G1.
    destruct (pairs_loop (aread_val p f) (S f) _ _ _ s0 []) as [[l s1]| |]; cbn [bind ag] in *; [|intros ?; apply G1; lia|exact G1].
    destruct G1 as [G1 Hn1]. split; [lia|exact Hn1].
  - (* set *)
    pose proof (a_coll_begin_ag True p s Hn) as G0.
    destruct (a_coll_begin p s) as [[h s0]| |]; cbn [bind ag] in *; [|intros _; apply G0; exact I|exact G0].
    destruct G0 as [G0 Hn0].
    pose proof (aelems_ag (aread_val p f) f IH (S f) (fst h) (snd h) s0 [] Hn0) as G1.
    destruct (elems_loop (aread_val p f) (S f) _ _ s0 []) as [[l s1]| |]; cbn [bind ag] in *; [|intros ?; apply G1; lia|exact G1].
    destruct G1 as [G1 Hn1]. split; [lia|exact Hn1].
  - (* list *)
    pose proof (a_coll_begin_ag True p s Hn) as G0.
    destruct (a_coll_begin p s) as [[h s0]| |]; cbn [bind ag] in *; [|intros _; apply G0; exact I|exact G0].
    destruct G0 as [G0 Hn0].
    pose proof (aelems_ag (aread_val p f) f IH (S f) (fst h) (snd h) s0 [] Hn0) as G1.
    destruct (elems_loop (aread_val p f) (S f) _ _ s0 []) as [[l s1]| |]; cbn [bind ag] in *; [|intros ?; apply G1; lia|exact G1].
    destruct G1 as [G1 Hn1]. split; [lia|exact Hn1].
  - apply (ag_map _ _ VUuid), a_uuid_ag, Hn.
Qed.

(* ================================================================== *)
(* (2) the simulation including errors *)
Definition esim {A} (s : rst) (o1 o2 : res (A * rst)) : Prop :=
  match o1 with
  | Ok (x, s') => o2 = Ok (x, s') /\ inv s' /\ (blen s' <= blen s)%nat
  | Err _ => exists e', o2 = Err e'
  | Panic _ => True
  end.

Lemma esim_bind {A B} s (o1 o2 : res (A * rst)) (f g : A * rst -> res (B * rst)) :
  esim s o1 o2 ->
  (forall x s', o2 = Ok (x, s') -> inv s' -> (blen s' <= blen s)%nat -> esim s' (f (x, s')) (g (x, s'))) ->
  esim s (bind o1 f) (bind o2 g).
Proof.
  intros H1 H2. destruct o1 as [[x s']| |]; cbn [bind esim] in *; auto.
  - destruct H1 as (-> & Hi & Hl). cbn [bind]. specialize (H2 x s' eq_refl Hi Hl).
    destruct (f (x, s')) as [[y s'']| |]; cbn [esim] in *; auto.
    destruct H2 as (-> & Hi2 & Hl2). repeat split; auto; try apply Hi2. lia.
  - destruct H1 as [e' ->]. cbn [bind]. eauto.
Qed.

Lemma esim_ret {A} s (x : A) s' : inv s' -> (blen s' <= blen s)%nat -> esim s (Ok (x, s')) (Ok (x, s')).
Proof. cbn. auto. Qed.

Lemma esim_map {A B} s (o1 o2 : res (A * rst)) (g : A -> B) :
  esim s o1 o2 -> esim s (let* (x, s') := o1 in Ok (g x, s')) (let* (x, s') := o2 in Ok (g x, s')).
Proof. intros H. eapply esim_bind; [exact H|]. intros. apply esim_ret; auto. Qed.

Lemma esim_err {A} s e e' : esim s (@Err (A * rst) e) (Err e').
Proof. cbn. eauto. Qed.

Lemma take_esim n s : inv s -> esim s (r_take n s) (a_take n s).
Proof.
  intros Hi. unfold r_take, a_take. destruct (take n (rbuf s)) as [[a r]|] eqn:E; cbn [esim]; [|eauto].
  apply take_some in E as [E1 E2].
  assert (length r <= blen s)%nat by (unfold blen; rewrite E1, app_length; lia).
  split; [reflexivity|]. split; [apply inv_set_buf; auto|exact H].
Qed.

Lemma byte_esim s : inv s -> esim s (r_byte s) (a_byte s).
Proof. intros. unfold r_byte, a_byte. apply esim_map, take_esim; auto. Qed.
Lemma i8_esim s : inv s -> esim s (r_i8 s) (a_i8 s).
Proof. intros. unfold r_i8, a_i8. apply (esim_map _ _ _ (fun a => wrap_s 8 (of_le a))), take_esim; auto. Qed.
Lemma fixed_esim p n b s : inv s -> esim s (r_fixed p n b s) (a_fixed p n b s).
Proof. intros. unfold r_fixed, a_fixed. apply (esim_map _ _ _ (fun a => wrap_s b (unfx p a))), take_esim; auto. Qed.

Lemma varint_esim m s : inv s -> esim s (r_varint m s) (a_varint m s).
Proof.
  intros Hi. unfold r_varint, a_varint, read_var_u64.
  pose proof (rd_var_good m 0 0 (rbuf s)) as G.
  destruct (rd_var m 0 0 (rbuf s)) as [[n r]| |]; cbn [bind esim]; auto; [|eauto].
  assert (length r <= blen s)%nat by (unfold blen; lia).
  repeat split; auto; try apply inv_set_buf; auto.
Qed.

Lemma zz_esim m bits s : inv s ->
  esim s (let* (n, s) := r_varint m s in Ok (wrap_s bits (unzigzag n), s))
         (let* (n, s) := a_varint m s in Ok (wrap_s bits (unzigzag n), s)).
Proof. intros. apply (esim_map _ _ _ (fun n => wrap_s bits (unzigzag n))), varint_esim; auto. Qed.

Lemma i16_esim p s : inv s -> esim s (r_i16 p s) (a_i16 p s).
Proof. intros. destruct p; cbn [r_i16 a_i16]; auto using fixed_esim, zz_esim. Qed.
Lemma i32_esim p s : inv s -> esim s (r_i32 p s) (a_i32 p s).
Proof. intros. destruct p; cbn [r_i32 a_i32]; auto using fixed_esim, zz_esim. Qed.
Lemma i64_esim p s : inv s -> esim s (r_i64 p s) (a_i64 p s).
Proof. intros. destruct p; cbn [r_i64 a_i64]; auto using fixed_esim, zz_esim. Qed.
Lemma double_esim p s : inv s -> esim s (r_double p s) (a_double p s).
Proof.
  intros. unfold r_double, a_double.
  apply (esim_map _ _ _ (fun a => match p with PBinary => of_be a | _ => of_le a end)), take_esim; auto.
Qed.
Lemma uuid_esim s : inv s -> esim s (r_uuid s) (a_uuid s).
Proof. intros. apply take_esim; auto. Qed.

(* byte strings: the in-memory reader compares the declared length with what remains, the
   asynchronous one reads until the stream ends (binary: after rejecting a negative length) *)
Lemma bytes_esim p s : inv s -> esim s (r_bytes p s) (a_bytes p s).
Proof.
  intros Hi. unfold r_bytes. destruct p; cbn [r_len a_bytes].
  1,2: match goal with |- context [r_i32 ?p ?s0] =>
         pose proof (i32_esim p s0 Hi) as S1; pose proof (i32_range p s0) as R1;
         destruct (r_i32 p s0) as [[n s1]| |] end; cbn [bind esim] in *; auto;
       [ destruct S1 as (-> & Hi1 & Hl1); cbn [bind];
         specialize (R1 n s1 eq_refl); destruct R1 as [R1 R2]; change (2 ^ (32 - 1)) with (2 ^ 31) in *;
         unfold r_split, wrap_u;
         destruct Hi1 as [Hp1 Hb1]; unfold blen in Hb1;
         (destruct (Z.ltb_spec n 0) as [Hneg|Hpos];
          [ assert (E : n mod 2 ^ 64 = n + 2 ^ 64) by (symmetry; apply (Z.mod_unique_pos _ _ (-1)); lia);
            rewrite E; replace (n + 2 ^ 64 <=? Z.of_nat (length (rbuf s1))) with false by lia; apply esim_err
          | rewrite Z.mod_small by lia;
            destruct (n <=? Z.of_nat (length (rbuf s1))); [|apply esim_err];
            pose proof (take_esim (Z.to_nat n) s1 (conj Hp1 Hb1)) as S2;
            destruct (r_take (Z.to_nat n) s1) as [[l s2]| |]; cbn [esim] in *; auto;
            destruct S2 as (-> & Hi2 & Hl2); repeat split; auto; try apply Hi2; lia ])
       | destruct S1 as [e' ->]; cbn [bind]; eauto ].
  pose proof (varint_esim maxsize_32 s Hi) as S1.
  destruct (r_varint maxsize_32 s) as [[n s1]| |]; cbn [bind esim] in *; auto.
  - destruct S1 as (-> & Hi1 & Hl1). cbn [bind]. unfold r_split.
    destruct (wrap_u 32 n <=? Z.of_nat (length (rbuf s1))); [|apply esim_err].
    pose proof (take_esim (Z.to_nat (wrap_u 32 n)) s1 Hi1) as S2.
    destruct (r_take _ s1) as [[l s2]| |]; cbn [esim] in *; auto.
    destruct S2 as (-> & Hi2 & Hl2). repeat split; auto; try apply Hi2; lia.
  - destruct S1 as [e' ->]. cbn [bind]. eauto.
Qed.

Lemma ttype_esim s : inv s -> esim s (r_ttype s) (a_ttype s).
Proof.
  intros Hi. unfold r_ttype, a_ttype. eapply esim_bind; [apply byte_esim; auto|].
  intros b s' _ Hi' Hl. destruct (ttype_of_byte b); [apply esim_ret; auto|apply esim_err].
Qed.

Lemma bool_esim p s : inv s -> esim s (r_bool p s) (a_bool p s).
Proof.
  intros Hi. destruct p; cbn [r_bool a_bool].
  1,2: apply (esim_map _ _ _ (fun b => negb (b =? 0))), i8_esim; auto.
  destruct Hi as [Hp Hb]. rewrite Hp.
  destruct (r_pbool (rc s)) eqn:E.
  - cbn [esim]. repeat split; auto.
  - assert (Es : set_rc s (mkR (r_last (rc s)) (r_stack (rc s)) None false) = s).
    { destruct s as [b [l st pb pf]]. cbn in *. subst. reflexivity. }
    rewrite Es.
    eapply esim_bind; [apply byte_esim; split; auto|].
    intros b s' _ Hi' Hl. destruct (ctype_of_code b) as [[]|]; try apply esim_err; apply esim_ret; auto.
Qed.

Lemma struct_begin_esim p s : inv s -> esim s (r_struct_begin p s) (a_struct_begin p s).
Proof.
  intros Hi. unfold a_struct_begin. destruct p; cbn [r_struct_begin esim]; repeat split; auto; try apply Hi.
Qed.
Lemma struct_end_esim p s : inv s -> esim s (r_struct_end p s) (a_struct_end p s).
Proof.
  intros Hi. unfold a_struct_end. destruct p; cbn [r_struct_end esim]; repeat split; auto; try apply Hi.
  destruct (r_stack (rc s)); [cbn; eauto|]. cbn [esim]. repeat split; auto; apply Hi.
Qed.

Lemma field_begin_esim p s : inv s -> esim s (r_field_begin p s) (a_field_begin p s).
Proof.
  intros Hi. destruct p; cbn [r_field_begin a_field_begin].
  1,2: eapply esim_bind; [apply ttype_esim; auto|]; intros ty s' _ Hi' Hl;
       destruct ty; try (apply esim_ret; auto; fail);
       (eapply esim_bind; [apply i16_esim; auto|]; intros; apply esim_ret; auto).
  rewrite (clear_pfield_id s (proj1 Hi)).
  eapply esim_bind; [apply byte_esim; auto|]. intros b s1 _ Hi1 Hl1.
  set (X := if b mod 16 =? ctype_code CBooleanTrue then _ else _).
  assert (SX : esim s1 X X).
  { subst X. destruct Hi1 as [Hp1 Hb1].
    destruct (b mod 16 =? ctype_code CBooleanTrue); [cbn [esim]; repeat split; auto|].
    destruct (b mod 16 =? ctype_code CBooleanFalse); [cbn [esim]; repeat split; auto|].
    destruct (ctype_of_code (b mod 16)) as [ct|]; [|apply esim_err].
    destruct (ttype_of_ctype ct); [|apply esim_err]. cbn [esim]. repeat split; auto. }
  eapply esim_bind; [exact SX|]. intros ty s2 _ Hi2 Hl2.
  assert (SY : esim s2
    (if negb (b / 16 =? 0)
     then Ok (ty, Some (wrap_s 16 (r_last (rc s2) + b / 16)),
              set_rc s2 (mkR (wrap_s 16 (r_last (rc s2) + b / 16)) (r_stack (rc s2)) (r_pbool (rc s2)) (r_pfield (rc s2))))
     else let* (id, s) := r_i16 PCompact s2 in
          Ok (ty, Some id, set_rc s (mkR id (r_stack (rc s)) (r_pbool (rc s)) (r_pfield (rc s)))))
    (if negb (b / 16 =? 0)
     then Ok (ty, Some (wrap_s 16 (r_last (rc s2) + b / 16)),
              set_rc s2 (mkR (wrap_s 16 (r_last (rc s2) + b / 16)) (r_stack (rc s2)) (r_pbool (rc s2)) (r_pfield (rc s2))))
     else let* (id, s) := a_i16 PCompact s2 in
          Ok (ty, Some id, set_rc s (mkR id (r_stack (rc s)) (r_pbool (rc s)) (r_pfield (rc s)))))).
  { destruct (negb (b / 16 =? 0)).
    - cbn [esim]. repeat split; auto; apply Hi2.
    - eapply esim_bind; [apply i16_esim; auto|]. intros id s3 _ Hi3 Hl3.
      cbn [esim]. repeat split; auto; apply Hi3. }
  destruct ty; try exact SY. apply esim_ret; auto.
Qed.

(* container headers: when the in-memory reader rejects the announced size, the asynchronous reader
   either fails in the header as well or accepts a count that exceeds the bytes that remain *)
Definition hsim {H} (cnt : H -> Z) (s : rst) (o1 o2 : res (H * rst)) : Prop :=
  match o1 with
  | Ok (h, s') => o2 = Ok (h, s') /\ inv s' /\ (blen s' <= blen s)%nat
  | Err _ => (exists e', o2 = Err e') \/ (exists h s', o2 = Ok (h, s') /\ Z.of_nat (blen s') < cnt h)
  | Panic _ => True
  end.

Lemma hsim_bind {A H} (cnt : H -> Z) s (o1 o2 : res (A * rst)) (f g : A * rst -> res (H * rst)) :
  esim s o1 o2 ->
  (forall x s', o1 = Ok (x, s') -> inv s' -> (blen s' <= blen s)%nat -> hsim cnt s' (f (x, s')) (g (x, s'))) ->
  hsim cnt s (bind o1 f) (bind o2 g).
Proof.
  intros H1 H2. destruct o1 as [[x s']| |]; cbn [bind esim] in *; auto.
  - destruct H1 as (-> & Hi & Hl). cbn [bind]. specialize (H2 x s' eq_refl Hi Hl).
    destruct (f (x, s')) as [[y s'']| |]; cbn [hsim] in *; auto.
    destruct H2 as (-> & Hi2 & Hl2). repeat split; auto; try apply Hi2. lia.
  - destruct H1 as [e' ->]. cbn [bind hsim]. eauto.
Qed.

(* the size check against the count the asynchronous reader computes ([W] = identity for the compact
   short form, [wrap_u 64] = `as usize` otherwise) *)
Lemma check_size_hsim {H} (cnt : H -> Z) (mk : Z -> H) (W : Z -> Z) n s :
  inv s -> (forall z, cnt (mk z) = z) ->
  (0 <= n <= Z.of_nat (blen s) -> W n = n) ->
  (n < 0 \/ Z.of_nat (blen s) < n -> Z.of_nat (blen s) < W n) ->
  hsim cnt s (let* m := check_size n s in Ok (mk m, s)) (Ok (mk (W n), s)).
Proof.
  intros Hi Hc Hw1 Hw2. unfold check_size. fold (blen s).
  destruct (Z.ltb_spec n 0) as [H0|H0]; cbn [bind hsim].
  - right. eexists _, _. split; [reflexivity|]. rewrite Hc. apply Hw2. lia.
  - destruct (Z.ltb_spec (Z.of_nat (blen s)) n) as [H1|H1]; cbn [bind hsim].
    + right. eexists _, _. split; [reflexivity|]. rewrite Hc. apply Hw2. lia.
    + rewrite Hw1 by lia. split; [reflexivity|]. split; [exact Hi|lia].
Qed.

Lemma wrap_u64_i32 n b : in_s 32 n -> 0 <= b < 2 ^ 63 ->
  (0 <= n <= b -> wrap_u 64 n = n) /\ (n < 0 \/ b < n -> b < wrap_u 64 n).
Proof.
  intros [R1 R2] Hb. change (2 ^ (32 - 1)) with 2147483648 in *. change (2 ^ 63) with 9223372036854775808 in Hb.
  unfold wrap_u. change (2 ^ 64) with 18446744073709551616. split; intros H.
  - apply Z.mod_small. lia.
  - destruct (Z.ltb_spec n 0).
    + assert (E : n mod 18446744073709551616 = n + 18446744073709551616) by (symmetry; apply (Z.mod_unique_pos _ _ (-1)); lia).
      rewrite E. lia.
    + rewrite Z.mod_small by lia. lia.
Qed.

Lemma r_byte_range s h s' : r_byte s = Ok (h, s') -> 0 <= h < 256.
Proof.
  unfold r_byte, r_take. destruct (take 1 (rbuf s)) as [[a r]|] eqn:E; cbn [bind]; [|discriminate].
  intros H. injection H as <- _. apply take_some in E as [_ E]. pose proof (of_le_range a) as R. rewrite E in R.
  change (256 ^ Z.of_nat 1) with 256 in R. exact R.
Qed.

Lemma coll_begin_hsim p s : inv s -> hsim snd s (r_coll_begin p s) (a_coll_begin p s).
Proof.
  intros Hi. destruct p; cbn [r_coll_begin a_coll_begin].
  1,2: eapply hsim_bind; [apply ttype_esim; auto|]; intros et s1 _ Hi1 Hl1;
       match goal with |- context [r_i32 ?p s1] =>
         pose proof (i32_esim p s1 Hi1) as S1; pose proof (i32_range p s1) as R1;
         destruct (r_i32 p s1) as [[n s2]| |] end; cbn [bind esim hsim] in *; auto;
       [ destruct S1 as (-> & Hi2 & Hl2); cbn [bind]; specialize (R1 n s2 eq_refl);
         pose proof (wrap_u64_i32 n (Z.of_nat (blen s2)) R1 ltac:(destruct Hi2; lia)) as [W1 W2];
         pose proof (check_size_hsim (@snd ttype Z) (fun z => (et, z)) (wrap_u 64) n s2 Hi2 (fun z => eq_refl) W1 W2) as C;
         destruct (check_size n s2) as [m| |]; cbn [bind hsim] in *; auto;
         destruct C as (C1 & C2 & C3); (split; [exact C1|]); (split; [exact C2|lia])
       | destruct S1 as [e' ->]; cbn [bind]; eauto ].
  eapply hsim_bind; [apply byte_esim; auto|]. intros h s1 Hh Hi1 Hl1. apply r_byte_range in Hh.
  destruct (ttype_of_nibble (h mod 16)) as [et| |]; cbn [bind hsim]; eauto.
  destruct (negb (h / 16 =? 15)).
  - pose proof (check_size_hsim (@snd ttype Z) (fun z => (et, z)) (fun z => z) (h / 16) s1 Hi1 (fun z => eq_refl)
                  (fun _ => eq_refl) ltac:(intros [?|?]; [|assumption]; lia)) as C.
    exact C.
  - pose proof (varint_esim maxsize_32 s1 Hi1) as S1.
    destruct (r_varint maxsize_32 s1) as [[n s2]| |]; cbn [bind esim hsim] in *; auto.
    + destruct S1 as (-> & Hi2 & Hl2). cbn [bind].
      pose proof (wrap_u64_i32 (wrap_s 32 n) (Z.of_nat (blen s2)) (wrap_s_range 32 n ltac:(lia)) ltac:(destruct Hi2; lia)) as [W1 W2].
      pose proof (check_size_hsim (@snd ttype Z) (fun z => (et, z)) (wrap_u 64) (wrap_s 32 n) s2 Hi2 (fun z => eq_refl) W1 W2) as C.
      destruct (check_size (wrap_s 32 n) s2) as [m| |]; cbn [bind hsim] in *; auto.
      destruct C as (C1 & C2 & C3); (split; [exact C1|]); (split; [exact C2|lia]).
    + destruct S1 as [e' ->]. cbn [bind]. eauto.
Qed.

Lemma map_begin_hsim p s : inv s -> hsim snd s (r_map_begin p s) (a_map_begin p s).
Proof.
  intros Hi. destruct p; cbn [r_map_begin a_map_begin].
  1,2: eapply hsim_bind; [apply ttype_esim; auto|]; intros kt s0 _ Hi0 Hl0;
       eapply hsim_bind; [apply ttype_esim; auto|]; intros vt s1 _ Hi1 Hl1;
       match goal with |- context [r_i32 ?p s1] =>
         pose proof (i32_esim p s1 Hi1) as S1; pose proof (i32_range p s1) as R1;
         destruct (r_i32 p s1) as [[n s2]| |] end; cbn [bind esim hsim] in *; auto;
       [ destruct S1 as (-> & Hi2 & Hl2); cbn [bind]; specialize (R1 n s2 eq_refl);
         pose proof (wrap_u64_i32 n (Z.of_nat (blen s2)) R1 ltac:(destruct Hi2; lia)) as [W1 W2];
         pose proof (check_size_hsim (@snd (ttype * ttype) Z) (fun z => (kt, vt, z)) (wrap_u 64) n s2 Hi2 (fun z => eq_refl) W1 W2) as C;
         destruct (check_size n s2) as [m| |]; cbn [bind hsim] in *; auto;
         destruct C as (C1 & C2 & C3); (split; [exact C1|]); (split; [exact C2|lia])
       | destruct S1 as [e' ->]; cbn [bind]; eauto ].
  pose proof (varint_esim maxsize_32 s Hi) as S1.
  destruct (r_varint maxsize_32 s) as [[n s1]| |]; cbn [bind esim hsim] in *; auto;
    [|destruct S1 as [e' ->]; cbn [bind]; eauto].
  destruct S1 as (-> & Hi1 & Hl1). cbn [bind].
  destruct (wrap_s 32 n =? 0); [cbn [hsim]; auto|].
  pose proof (byte_esim s1 Hi1) as S2.
  destruct (r_byte s1) as [[h s2]| |]; cbn [bind esim hsim] in *; auto;
    [|destruct S2 as [e' ->]; cbn [bind]; eauto].
  destruct S2 as (-> & Hi2 & Hl2). cbn [bind].
  destruct (ttype_of_nibble (h / 16)) as [kt| |]; cbn [bind hsim]; eauto.
  destruct (ttype_of_nibble (h mod 16)) as [vt| |]; cbn [bind hsim]; eauto.
  pose proof (wrap_u64_i32 (wrap_s 32 n) (Z.of_nat (blen s2)) (wrap_s_range 32 n ltac:(lia)) ltac:(destruct Hi2; lia)) as [W1 W2].
  pose proof (check_size_hsim (@snd (ttype * ttype) Z) (fun z => (kt, vt, z)) (wrap_u 64) (wrap_s 32 n) s2 Hi2 (fun z => eq_refl) W1 W2) as C.
  destruct (check_size (wrap_s 32 n) s2) as [m| |]; cbn [bind hsim] in *; auto.
  destruct C as (C1 & C2 & C3). split; [exact C1|]. split; [exact C2|lia].
Qed.

(* --- loops --- *)
Section LoopsEsim.
  Variable p : pk.
  Variables rec arec : ttype -> rst -> res (tval * rst).
  Variable f' : nat.
  Hypothesis Hrec : forall ty s, inv s -> pend_ok p ty s -> esim s (rec ty s) (arec ty s).
  Hypothesis Harec1 : forall ty s, npb s -> ag (blen s < f')%nat (arec ty s) s 1.
  Hypothesis HarecB : p = PCompact -> forall s, ag (blen s < f')%nat (arec TBool s) s 0.

  Lemma npb_after ty s x s' : pend_ok p ty s -> arec ty s = Ok (x, s') -> npb s'.
  Proof.
    intros Hp E. pose proof (arec_pend p arec f' Harec1 HarecB ty s Hp) as G. rewrite E in G. apply G.
  Qed.

  Lemma fields_esim : forall n s acc, inv s -> npb s ->
    esim s (fields_loop p rec n s acc) (afields_loop p arec n s acc).
  Proof.
    induction n as [|n IH]; intros s acc Hi Hn; [apply esim_err|].
    cbn [fields_loop afields_loop].
    eapply esim_bind; [apply field_begin_esim; auto|]. intros h s1 E1 Hi1 Hl1.
    pose proof (a_field_begin_ag p s Hn) as G. rewrite E1 in G. destruct G as (_ & Gp & Gs).
    destruct (ttype_eqb (fst h) TStop); [apply esim_ret; auto|].
    eapply esim_bind; [apply Hrec; auto|]. intros x s2 E2 Hi2 Hl2.
    apply IH; auto. eapply npb_after; eauto.
  Qed.

  Lemma elems_esim : forall m et n s acc, inv s -> npb s ->
    esim s (elems_loop rec m et n s acc) (elems_loop arec m et n s acc).
  Proof.
    induction m as [|m IH]; intros et n s acc Hi Hn; cbn [elems_loop].
    - destruct (n <=? 0); [apply esim_ret; auto|apply esim_err].
    - destruct (n <=? 0); [apply esim_ret; auto|].
      eapply esim_bind; [apply Hrec; auto; left; exact Hn|]. intros x s1 E1 Hi1 Hl1.
      apply IH; auto. eapply npb_after; eauto. left; exact Hn.
  Qed.

  Lemma pairs_esim : forall m kt vt n s acc, inv s -> npb s ->
    esim s (pairs_loop rec m kt vt n s acc) (pairs_loop arec m kt vt n s acc).
  Proof.
    induction m as [|m IH]; intros kt vt n s acc Hi Hn; cbn [pairs_loop].
    - destruct (n <=? 0); [apply esim_ret; auto|apply esim_err].
    - destruct (n <=? 0); [apply esim_ret; auto|].
      eapply esim_bind; [apply Hrec; auto; left; exact Hn|]. intros a s1 E1 Hi1 Hl1.
      assert (Hn1 : npb s1) by (eapply npb_after; eauto; left; exact Hn).
      eapply esim_bind; [apply Hrec; auto; left; exact Hn1|]. intros b s2 E2 Hi2 Hl2.
      apply IH; auto. eapply npb_after; eauto. left; exact Hn1.
  Qed.
End LoopsEsim.

Lemma esim_map2 {A B} s (o1 o2 : res (A * rst)) (g : A -> B) :
  esim s o1 o2 -> esim s (let* (x, s') := o1 in Ok (g x, s')) (let* (x, s') := o2 in Ok (g x, s')).
Proof. apply esim_map. Qed.

(* a container: header by [hsim], then the element loop *)
Lemma coll_esim {H L} (cnt : H -> Z) s (oh ah : res (H * rst))
      (loop aloop : H -> rst -> res (L * rst)) (mk : H -> L -> tval) :
  hsim cnt s oh ah ->
  (forall h s', ah = Ok (h, s') -> inv s' -> esim s' (loop h s') (aloop h s')) ->
  (forall h s', ah = Ok (h, s') -> Z.of_nat (blen s') < cnt h -> exists e, aloop h s' = Err e) ->
  esim s (let* (h, s1) := oh in let* (l, s2) := loop h s1 in Ok (mk h l, s2))
         (let* (h, s1) := ah in let* (l, s2) := aloop h s1 in Ok (mk h l, s2)).
Proof.
  intros Hh Hl Hs. destruct oh as [[h s1]| |]; cbn [bind hsim esim] in *; auto.
  - destruct Hh as (-> & Hi1 & Hl1). cbn [bind]. specialize (Hl h s1 eq_refl Hi1).
    destruct (loop h s1) as [[l s2]| |]; cbn [bind esim] in *; auto.
    + destruct Hl as (-> & Hi2 & Hl2). cbn [bind]. repeat split; auto; try apply Hi2. lia.
    + destruct Hl as [e' ->]. cbn [bind]. eauto.
  - destruct Hh as [[e' ->]|(h & s' & -> & Hlt)]; cbn [bind]; [eauto|].
    destruct (Hs h s' eq_refl Hlt) as [e' ->]. cbn [bind]. eauto.
Qed.

Theorem aread_val_esim p : forall f ty s, inv s -> pend_ok p ty s ->
  esim s (read_val p f ty s) (aread_val p f ty s).
Proof.
  induction f as [|f IH]; intros ty s Hi Hp; [apply esim_err|].
  assert (IHB : p = PCompact -> forall s0, ag (blen s0 < f)%nat (aread_val p f TBool s0) s0 0).
  { intros Hc s0. apply aread_ag_bool. left. exact Hc. }
  rewrite read_val_S. cbn [aread_val].
  assert (Hn : ty <> TBool -> npb s) by (intros Hb; destruct Hp as [Hp|[_ Hp]]; [exact Hp|congruence]).
  destruct ty; try apply esim_err.
  - apply (esim_map _ _ _ VBool), bool_esim; auto.
  - apply (esim_map _ _ _ VI8), i8_esim; auto.
  - apply (esim_map _ _ _ VDouble), double_esim; auto.
  - apply (esim_map _ _ _ VI16), i16_esim; auto.
  - apply (esim_map _ _ _ VI32), i32_esim; auto.
  - apply (esim_map _ _ _ VI64), i64_esim; auto.
  - apply (esim_map _ _ _ VBinary), bytes_esim; auto.
  - (* struct *)
    specialize (Hn ltac:(discriminate)).
    eapply esim_bind; [apply struct_begin_esim; auto|]. intros u s0 E0 Hi0 Hl0.
    assert (Hn0 : npb s0).
    { pose proof (a_struct_begin_ag True p s Hn) as G. rewrite E0 in G. apply G. }
    eapply esim_bind; [apply (fields_esim p (read_val p f) (aread_val p f) f IH (aread_ag1 p f) IHB); auto|].
    intros fs s1 E1 Hi1 Hl1.
    eapply esim_bind; [apply struct_end_esim; auto|]. intros u2 s2 _ Hi2 Hl2. apply esim_ret; auto.
  - (* map *)
    specialize (Hn ltac:(discriminate)).
    apply (coll_esim (@snd (ttype * ttype) Z) s _ _
             (fun h s1 => pairs_loop (read_val p f) (S f) (fst (fst h)) (snd (fst h)) (snd h) s1 [])
             (fun h s1 => pairs_loop (aread_val p f) (S f) (fst (fst h)) (snd (fst h)) (snd h) s1 [])
             (fun h l => VMap (fst (fst h)) (snd (fst h)) l)).
    + apply map_begin_hsim; auto.
    + intros h s0 E0 Hi0.
      assert (Hn0 : npb s0) by (pose proof (a_map_begin_ag True p s Hn) as G; rewrite E0 in G; apply G).
      apply (pairs_esim p (read_val p f) (aread_val p f) f IH (aread_ag1 p f) IHB); auto.
    + intros h s0 E0 Hlt.
      assert (Hn0 : npb s0) by (pose proof (a_map_begin_ag True p s Hn) as G; rewrite E0 in G; apply G).
      apply (apairs_starve (aread_val p f) f (aread_ag1 p f)); auto.
  - (* set *)
    specialize (Hn ltac:(discriminate)).
    apply (coll_esim (@snd ttype Z) s _ _
             (fun h s1 => elems_loop (read_val p f) (S f) (fst h) (snd h) s1 [])
             (fun h s1 => elems_loop (aread_val p f) (S f) (fst h) (snd h) s1 [])
             (fun h l => VSet (fst h) l)).
    + apply coll_begin_hsim; auto.
    + intros h s0 E0 Hi0.
      assert (Hn0 : npb s0) by (pose proof (a_coll_begin_ag True p s Hn) as G; rewrite E0 in G; apply G).
      apply (elems_esim p (read_val p f) (aread_val p f) f IH (aread_ag1 p f) IHB); auto.
    + intros h s0 E0 Hlt.
      assert (Hn0 : npb s0) by (pose proof (a_coll_begin_ag True p s Hn) as G; rewrite E0 in G; apply G).
      apply (aelems_starve (aread_val p f) f (aread_ag1 p f)); auto.
  - (* list *)
    specialize (Hn ltac:(discriminate)).
    apply (coll_esim (@snd ttype Z) s _ _
             (fun h s1 => elems_loop (read_val p f) (S f) (fst h) (snd h) s1 [])
             (fun h s1 => elems_loop (aread_val p f) (S f) (fst h) (snd h) s1 [])
             (fun h l => VList (fst h) l)).
    + apply coll_begin_hsim; auto.
    + intros h s0 E0 Hi0.
      assert (Hn0 : npb s0) by (pose proof (a_coll_begin_ag True p s Hn) as G; rewrite E0 in G; apply G).
      apply (elems_esim p (read_val p f) (aread_val p f) f IH (aread_ag1 p f) IHB); auto.
    + intros h s0 E0 Hlt.
      assert (Hn0 : npb s0) by (pose proof (a_coll_begin_ag True p s Hn) as G; rewrite E0 in G; apply G).
      apply (aelems_starve (aread_val p f) f (aread_ag1 p f)); auto.
  - apply (esim_map _ _ _ VUuid), uuid_esim; auto.
Qed.

(* ================================================================== *)
(* C12, error direction, and the complete outcome table *)

(* C12_error: a reader started idle on ANY byte string: whenever the in-memory decoder reports an
   error, so does the asynchronous decoder -- it never returns a value and never panics *)
Theorem async_error p f ty l rcx e :
  idle rcx -> Z.of_nat (length l) < 2 ^ 63 ->
  read_val p f ty (mkS l rcx) = Err e ->
  exists e', aread_val p f ty (mkS l rcx) = Err e'.
Proof.
  intros [Hb Hp] Hl H.
  pose proof (aread_val_esim p f ty (mkS l rcx) (conj Hp Hl) (or_introl Hb)) as S. rewrite H in S. exact S.
Qed.

(* ... and with fuel beyond the length of the input neither error is the model's out-of-fuel
   artefact: both are errors of the implementation *)
Theorem async_error_fuel p f ty l rcx e :
  idle rcx -> Z.of_nat (length l) < 2 ^ 63 -> (length l < f)%nat ->
  read_val p f ty (mkS l rcx) = Err e ->
  e <> EOutOfFuel /\ exists e', aread_val p f ty (mkS l rcx) = Err e' /\ e' <> EOutOfFuel.
Proof.
  intros Hi Hl Hf H. split.
  - pose proof (read_val_good p f ty (mkS l rcx) Hf) as G. rewrite H in G. exact G.
  - destruct (async_error p f ty l rcx e Hi Hl H) as [e' E]. exists e'. split; [exact E|].
    pose proof (aread_ag1 p f ty (mkS l rcx) (proj1 Hi)) as G. rewrite E in G. apply G. exact Hf.
Qed.

(* the asynchronous decoder on an arbitrary stream: never a panic; with fuel beyond the length of
   the stream never out of fuel (no hang); a value costs at least one byte *)
Theorem async_total p f ty l rcx :
  r_pbool rcx = None ->
  match aread_val p f ty (mkS l rcx) with
  | Ok (_, s') => (blen s' + 1 <= length l)%nat
  | Err e => (length l < f)%nat -> e <> EOutOfFuel
  | Panic _ => False
  end.
Proof.
  intros Hb. pose proof (aread_ag1 p f ty (mkS l rcx) Hb) as G.
  destruct (aread_val p f ty (mkS l rcx)) as [[v s']| |]; cbn [ag] in G; auto. apply G.
Qed.

(* both directions in one statement: the outcome classes coincide *)
Theorem async_outcome p f ty l rcx :
  idle rcx -> Z.of_nat (length l) < 2 ^ 63 ->
  match read_val p f ty (mkS l rcx) with
  | Ok (v, s') => aread_val p f ty (mkS l rcx) = Ok (v, s')
  | Err _ => exists e', aread_val p f ty (mkS l rcx) = Err e'
  | Panic _ => True
  end.
Proof.
  intros [Hb Hp] Hl.
  pose proof (aread_val_esim p f ty (mkS l rcx) (conj Hp Hl) (or_introl Hb)) as S.
  destruct (read_val p f ty (mkS l rcx)) as [[v s']| |]; cbn [esim] in S; auto. apply S.
Qed.

(* non-vacuity: (a) a list header announcing five i32 where two bytes remain: the in-memory reader
   rejects the size, the asynchronous reader starts reading and hits the end of the stream;
   (b) a negative size; (c) a compact struct with a bool field then a truncated varint *)
Example async_error_examples :
  read_val PBinary 9 TList (mkS [x08; x00; x00; x00; x05; x01; x02] r0) = Err ESizeLimit /\
  aread_val PBinary 9 TList (mkS [x08; x00; x00; x00; x05; x01; x02] r0) = Err ETransport /\
  read_val PBinary 9 TList (mkS [x02; xff; xff; xff; xff; x01] r0) = Err ENegativeSize /\
  aread_val PBinary 9 TList (mkS [x02; xff; xff; xff; xff; x01] r0) = Err ETransport /\
  read_val PCompact 9 TStruct (mkS [x11; x15; x80] r0) = Err EInvalidData /\
  aread_val PCompact 9 TStruct (mkS [x11; x15; x80] r0) = Err ETransport /\
  read_val PCompact 9 TList (mkS [x31; x01] r0) = Err ESizeLimit /\
  aread_val PCompact 9 TList (mkS [x31; x01] r0) = Err ETransport.
Proof. repeat split; vm_compute; reflexivity. Qed.

(* why the invariant matters: with a STALE pending bool value (a state no sequence of reads from an
   idle reader produces) a compact list<bool> announcing one element on an exhausted stream is
   rejected by the in-memory reader but "completed" by the asynchronous one *)
Example stale_pending_counterexample :
  let s := mkS [x11] (mkR 0 [] (Some true) false) in
  read_val PCompact 9 TList s = Err ESizeLimit /\
  aread_val PCompact 9 TList s = Ok (VList TBool [VBool true], mkS [] (mkR 0 [] None false)).
Proof. split; vm_compute; reflexivity. Qed.
