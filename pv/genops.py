"""gen family -- the structural tie "emitted text -> ops": after the real pilota-build has emitted the corpus
(genbuild), the bodies of `encode` / `size` / `decode` of every emitted type are lowered (tools/emitted_ops.py) into
fam/gen/coq/Generated/EmittedOps.v, next to the corpus schema as a Coq term; the helper table of the runtime's Ext
traits goes to Generated/ExtTable.v.  The proof gate of C02 / C04 / C08 then checks, by computation, that the
regenerated rows are the rows the template model prescribes (Proofs/EmitTableP.v).

Called from gencheck.run_check for EVERY gen-level check (the files are part of the family's _CoqProject and must
exist); the lowering itself is skipped when nothing it reads has changed (digest in the header of the file)."""
import hashlib
import os
import sys

from . import core, genbuild

FAM = core.Family('gen')
GEN_DIR = os.path.join(FAM.coq, 'Generated')
OPS_V = os.path.join(GEN_DIR, 'EmittedOps.v')
EXT_V = os.path.join(GEN_DIR, 'ExtTable.v')
TOOL = os.path.join(core.ROOT, 'tools', 'emitted_ops.py')
OPS_CONFIGS = ('plain', 'keep')
PROPS = ('C02', 'C04', 'C08', 'C12')     # the properties whose gate includes the table lemma

STUB = """(* STUB written by pv/genops.py: the emitted code could not be lowered (%s).
   Empty tables: the non-vacuity lemma of Proofs/EmitTableP.v fails on purpose. *)
From Coq Require Import String.
From PVGen Require Import EmitOps.
Definition schema_plain : schema := [].
Definition emitted_plain : list erow := [].
Definition emitted_plain_async : list arow := [].
Definition schema_keep : schema := [].
Definition emitted_keep : list erow := [].
Definition emitted_keep_async : list arow := [].
"""


def _tool():
    sys.path.insert(0, os.path.join(core.ROOT, 'tools'))
    import emitted_ops
    return emitted_ops


def _digest(paths, extra=''):
    h = hashlib.sha1(extra.encode())
    for p in paths:
        h.update(p.encode())
        try:
            h.update(open(p, 'rb').read())
        except OSError:
            h.update(b'<missing>')
    return h.hexdigest()[:16]


def _write(path, text):
    os.makedirs(os.path.dirname(path), exist_ok=True)
    if os.path.exists(path) and open(path, encoding='utf-8').read() == text:
        return False
    tmp = path + '.tmp%d' % os.getpid()
    open(tmp, 'w', encoding='utf-8').write(text)
    os.replace(tmp, path)
    return True


def current_digest():
    """the digest in the header of the table file as it is on disk now"""
    import re
    try:
        m = re.search(r'digest: (\w+) ', open(OPS_V, encoding='utf-8').read(600))
        return m.group(1) if m else None
    except OSError:
        return None


def regen(gb):
    """-> (ok, message, stats).  gb: the genbuild.GenBuild of this run (whatever corpus it built: the tables always describe
    the code the proof gate of THIS run is about)"""
    eo = _tool()
    stats = {}
    with core.Lock('coq_gen'):
        # ---- the runtime's Ext helpers
        try:
            _write(EXT_V, eo.ext_table(core.REPO))
        except (eo.LowerError, OSError) as e:
            if not os.path.exists(EXT_V):
                _write(EXT_V, 'From PVGen Require Import Kinds.\nDefinition ext_write_field_ttype (k : kind) : option ttype := None.\n'
                              'Definition ext_field_len_ttype (k : kind) : option ttype := None.\nDefinition ext_list_field_ttype : ttype := TStop.\n'
                              'Definition ext_set_field_ttype : ttype := TStop.\nDefinition ext_map_field_ttype : ttype := TStop.\n'
                              'Definition ext_struct_field_len_ttype : ttype := TStop.\n')
            return False, 'runtime Ext traits not understood: %s' % (e,), stats
        # ---- the emitted code
        built = gb is not None and gb.ok and gb.out_dir is not None and all(c in gb.emitted for c in OPS_CONFIGS)
        if not built:
            if not os.path.exists(OPS_V):
                _write(OPS_V, STUB % 'no build with the configurations plain and keep')
            return True, 'no build with the configurations plain and keep: tables left as they are', stats
        srcs = [gb.emitted[c] for c in OPS_CONFIGS] + [os.path.join(gb.out_dir, 'schema.txt'), TOOL, os.path.join(core.ROOT, 'tools', 'rustmini.py')]
        dg = _digest(srcs)
        if os.path.exists(OPS_V) and ('digest: %s ' % dg) in open(OPS_V, encoding='utf-8').read(600):
            return True, 'unchanged (digest %s)' % dg, dict(digest=dg, cached=True)
        try:
            schema_txt = open(os.path.join(gb.out_dir, 'schema.txt'), encoding='utf-8').read()
            order = [l.split(' ')[1] for l in schema_txt.split('\n') if l.strip()]
            rust_of = {n: gb.schema.types[n]['rust'] for n in order}
            tables = {}
            for cfg in OPS_CONFIGS:
                names, rows, arows, stats[cfg] = eo.lower_config(gb.emitted[cfg], cfg, rust_of, order)
                tables[cfg] = (names, rows, arows)
            text = eo.coq_file(schema_txt, tables, dg)
        except (eo.LowerError, eo.ParseError, KeyError, OSError) as e:
            _write(OPS_V, STUB % str(e).replace('*)', '* )')[:300])
            return False, 'emitted code not in the understood shapes: %s' % (e,), stats
        _write(OPS_V, text)
        stats['digest'] = dg
        return True, 'regenerated (digest %s)' % dg, stats
