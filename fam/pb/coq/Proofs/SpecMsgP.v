(* C06, out direction at message level, part 2: the reference decoder on the encoding of a whole message.
   Pass 1 (spec_records) cuts the encoding into one token per record ([toks]); pass 2 folds spec_apply over the tokens,
   which fills the struct slots left to right from Default::default(), exactly the value that was encoded. *)
From PVPb Require Import Spec Proofs.BitsP Proofs.VarintP Proofs.WireP Proofs.CastP Proofs.CodecP Proofs.SpecP Proofs.TotalP
  Proofs.DepthP Proofs.ShapeP Proofs.MsgLenP Proofs.MergeP Proofs.MergeCor Proofs.UnknownP Proofs.MsgRtP Proofs.SpecDecP.
From Coq Require Import ZifyN ZifyNat ZifyBool.
Open Scope Z_scope.

(* ------------------------------------------------------------------ pass 2: routing a token to its slot *)
Section Route.
  Variable rec : nat -> val -> list byte -> option val.
  Variable dflt : ty -> val.

  Lemma spec_apply_prefix fnum p : forall pre_f pre_x fs xs,
    length pre_f = length pre_x -> existsb (Z.eqb fnum) (flat_map field_tags pre_f) = false ->
    spec_apply rec dflt (pre_f ++ fs) (pre_x ++ xs) fnum p = option_map (app pre_x) (spec_apply rec dflt fs xs fnum p).
  Proof.
    induction pre_f as [|f pre_f IH]; intros pre_x fs xs Hl Hn.
    - destruct pre_x; [|discriminate Hl]. cbn [app]. destruct (spec_apply rec dflt fs xs fnum p); reflexivity.
    - destruct pre_x as [|x pre_x]; [discriminate Hl|]. cbn [app spec_apply].
      cbn [flat_map] in Hn. rewrite existsb_app in Hn. apply orb_false_iff in Hn. destruct Hn as [Hn1 Hn2]. rewrite Hn1.
      rewrite IH by (auto; cbn in Hl; lia). destruct (spec_apply rec dflt fs xs fnum p); reflexivity.
  Qed.

  Lemma spec_apply_at fnum p pre_f f post_f pre_x cur post_x :
    length pre_f = length pre_x -> existsb (Z.eqb fnum) (flat_map field_tags pre_f) = false ->
    existsb (Z.eqb fnum) (field_tags f) = true ->
    spec_apply rec dflt (pre_f ++ f :: post_f) (pre_x ++ cur :: post_x) fnum p
    = option_map (fun c' => pre_x ++ c' :: post_x) (spec_apply_field rec dflt f cur fnum p).
  Proof.
    intros Hl Hn Hin. rewrite spec_apply_prefix by assumption. cbn [spec_apply]. rewrite Hin.
    destruct (spec_apply_field rec dflt f cur fnum p); reflexivity.
  Qed.

  (* folding the tokens of a message / of one field *)
  Definition sfold (fs : list field) (ts : list (Z * spayload)) (xs : option (list val)) : option (list val) :=
    fold_left (fun acc r => match acc with Some cur => spec_apply rec dflt fs cur (fst r) (snd r) | None => None end) ts xs.
  Definition ffold (f : field) (ts : list (Z * spayload)) (cur : option val) : option val :=
    fold_left (fun acc r => match acc with Some c0 => spec_apply_field rec dflt f c0 (fst r) (snd r) | None => None end) ts cur.

  Lemma sfold_app fs t1 t2 xs : sfold fs (t1 ++ t2) xs = sfold fs t2 (sfold fs t1 xs).
  Proof. unfold sfold. apply fold_left_app. Qed.

  Lemma ffold_app f t1 t2 cur : ffold f (t1 ++ t2) cur = ffold f t2 (ffold f t1 cur).
  Proof. unfold ffold. apply fold_left_app. Qed.

  Lemma sfold_none fs ts : sfold fs ts None = None.
  Proof. induction ts; [reflexivity|exact IHts]. Qed.

  Lemma sfold_field pre_f f post_f pre_x post_x : forall ts cur,
    length pre_f = length pre_x ->
    Forall (fun r => existsb (Z.eqb (fst r)) (field_tags f) = true /\ existsb (Z.eqb (fst r)) (flat_map field_tags pre_f) = false) ts ->
    sfold (pre_f ++ f :: post_f) ts (Some (pre_x ++ cur :: post_x))
    = option_map (fun c' => pre_x ++ c' :: post_x) (ffold f ts (Some cur)).
  Proof.
    induction ts as [|r ts IH]; intros cur Hl Hall; [reflexivity|].
    inversion Hall as [|? ? [Hin Hpre] Hrest]; subst. cbn [sfold ffold fold_left].
    rewrite spec_apply_at by assumption.
    destruct (spec_apply_field rec dflt f cur (fst r) (snd r)) as [c'|]; cbn [option_map].
    - apply IH; assumption.
    - fold (sfold (pre_f ++ f :: post_f) ts None). rewrite sfold_none.
      fold (ffold f ts None). clear. induction ts; [reflexivity|exact IHts].
  Qed.
End Route.

(* ------------------------------------------------------------------ one level *)
Section SpecLevel.
  Variable edv : bool.
  Variable sc : schema.
  Hypothesis Hs : schema_ok sc = true.
  Variables (dv ds : nat).
  Hypothesis Hds : (dv <= ds)%nat.
  Hypothesis IHmsg : forall j e Dd, wt_msg dv sc j e = true -> lossless edv dv sc j e ->
    zlen (enc_msg edv dv sc j e) < two64 -> (dv <= Dd)%nat ->
    spec_merge_msg ds sc j (default_msg Dd sc j) (enc_msg edv dv sc j e) = Some e.

  Local Notation enc_rec := (enc_msg edv dv sc).
  Local Notation len_rec := (len_msg edv dv sc).
  Local Notation isd := (ty_is_default dv sc).
  Local Notation wt_rec := (wt_msg dv sc).
  Local Notation ll_rec := (lossless edv dv sc).
  Local Notation rec := (spec_merge_msg ds sc).
  Local Notation dflt := (default_ty ds sc).

  Definition ty_tok (t : ty) (e : val) : spayload :=
    match t with TScalar p => stok p e | TMsg j => PLen (enc_rec j e) end.

  Lemma rec_len_ok' : forall j e, wt_rec j e = true -> zlen (enc_rec j e) < two64 -> len_rec j e = zlen (enc_rec j e).
  Proof. intros. apply msg_len_correct; assumption. Qed.

  (* pass 1 on one value *)
  Lemma ty_toks tag t e : tag_ok tag -> wt_ty wt_rec t e = true -> zlen (enc_ty enc_rec len_rec tag t e) < two64 ->
    toks (enc_ty enc_rec len_rec tag t e) [(tag, ty_tok t e)].
  Proof.
    intros Ht Hw Hz. destruct t as [p|j]; cbn [wt_ty enc_ty ty_tok] in *.
    - destruct (scalar_module p) as [m|] eqn:E; [|discriminate].
      apply toks_one; [apply encode_scalar_nonempty|]. intros rest f.
      apply spec_record_scalar; [exact E|exact Ht|eapply mod_value_ok_spec; eauto].
    - unfold message_encode in *. rewrite zlen_app3 in Hz.
      pose proof (zlen_nonneg (encode_key tag LengthDelimited)). pose proof (zlen_nonneg (encode_varint (len_rec j e))).
      pose proof (zlen_nonneg (enc_rec j e)).
      rewrite (rec_len_ok' j e Hw ltac:(lia)) in *.
      apply toks_one.
      + intros E. apply app_eq_nil in E. destruct E as [E _]. exact (encode_key_nonempty _ _ E).
      + intros rest f. rewrite <- !app_assoc. apply spec_record_len; [exact Ht|lia].
  Qed.

  (* pass 2 on one value: start = what the slot holds (for a message: a default deep enough) *)
  Lemma spec_value_rt t cur e : wt_ty wt_rec t e = true -> ll_ty ll_rec t e -> zlen (match t with TMsg j => enc_rec j e | _ => [] end) < two64 ->
    start_ok sc dv t cur -> spec_value rec t cur (ty_tok t e) = Some e.
  Proof.
    intros Hw Hl Hz Hst. destruct t as [p|j]; cbn [wt_ty ll_ty spec_value ty_tok start_ok] in *.
    - destruct (scalar_module p) as [m|] eqn:E; [|discriminate].
      apply spec_scalar_value_rt. eapply mod_value_ok_spec; eauto.
    - destruct Hst as (Dd & HDd & ->). apply IHmsg; auto.
  Qed.

  Lemma dflt_start_ok' t : start_ok sc dv t (dflt t).
  Proof. destruct t as [p|j]; cbn [start_ok default_ty]; [exact I|]. exists ds. auto. Qed.

  Lemma msg_bound tag t e : wt_ty wt_rec t e = true -> zlen (enc_ty enc_rec len_rec tag t e) < two64 ->
    zlen (match t with TMsg j => enc_rec j e | _ => [] end) < two64.
  Proof.
    intros Hw Hz. destruct t as [p|j]; [unfold two64; cbn; lia|]. cbn [enc_ty] in Hz. unfold message_encode in Hz. rewrite zlen_app3 in Hz.
    pose proof (zlen_nonneg (encode_key tag LengthDelimited)). pose proof (zlen_nonneg (encode_varint (len_rec j e))). lia.
  Qed.

  (* ---------------------------------------------------------------- map entries *)
  Definition entry_toks (k : proto_type) (vt : ty) (kv vv : val) : list (Z * spayload) :=
    (if isd (TScalar k) kv && negb edv then [] else [(1, ty_tok (TScalar k) kv)]) ++
    (if isd vt vv && negb edv then [] else [(2, ty_tok vt vv)]).

  Lemma entry_split' tag k vt kv vv : wt_ty wt_rec (TScalar k) kv = true -> wt_ty wt_rec vt vv = true ->
    zlen (enc_entry edv enc_rec len_rec isd tag k vt (VL NPair [kv; vv])) < two64 ->
    enc_entry edv enc_rec len_rec isd tag k vt (VL NPair [kv; vv])
    = encode_key tag LengthDelimited ++ encode_varint (zlen (entry_bytes edv sc dv k vt kv vv)) ++ entry_bytes edv sc dv k vt kv vv.
  Proof.
    intros Hk Hv Hz. cbn [enc_entry] in *. unfold map_entry_encode, map_entry_len, entry_bytes in *.
    set (kd := isd (TScalar k) kv && negb edv) in *. set (vd := isd vt vv && negb edv) in *.
    rewrite !zlen_app in Hz.
    pose proof (zlen_nonneg (encode_key tag LengthDelimited)).
    match type of Hz with context [encode_varint ?n] => pose proof (zlen_nonneg (encode_varint n)) end.
    pose proof (zlen_nonneg (if kd then [] else enc_ty enc_rec len_rec 1 (TScalar k) kv)) as Nk.
    pose proof (zlen_nonneg (if vd then [] else enc_ty enc_rec len_rec 2 vt vv)) as Nv.
    assert (Hkl : kd = false -> len_ty len_rec 1 (TScalar k) kv = zlen (enc_ty enc_rec len_rec 1 (TScalar k) kv)).
    { intros E. rewrite E in Hz, Nk. cbv iota in Hz, Nk. apply (len_ty_ok enc_rec len_rec isd wt_rec rec_len_ok'); [apply tag_ok_1|exact Hk|lia]. }
    assert (Hvl : vd = false -> len_ty len_rec 2 vt vv = zlen (enc_ty enc_rec len_rec 2 vt vv)).
    { intros E. rewrite E in Hz, Nv. cbv iota in Hz, Nv. apply (len_ty_ok enc_rec len_rec isd wt_rec rec_len_ok'); [apply tag_ok_2|exact Hv|lia]. }
    assert (Hlen : (if kd then 0 else len_ty len_rec 1 (TScalar k) kv) + (if vd then 0 else len_ty len_rec 2 vt vv)
                   = zlen ((if kd then [] else enc_ty enc_rec len_rec 1 (TScalar k) kv) ++ (if vd then [] else enc_ty enc_rec len_rec 2 vt vv))).
    { rewrite zlen_app. destruct kd, vd; cbv iota; try rewrite (Hkl eq_refl); try rewrite (Hvl eq_refl); change (zlen []) with 0; lia. }
    rewrite Hlen. reflexivity.
  Qed.

  Lemma entry_bytes_toks k vt kv vv : wt_ty wt_rec (TScalar k) kv = true -> wt_ty wt_rec vt vv = true ->
    zlen (entry_bytes edv sc dv k vt kv vv) < two64 -> toks (entry_bytes edv sc dv k vt kv vv) (entry_toks k vt kv vv).
  Proof.
    intros Hk Hv Hz. unfold entry_bytes, entry_toks in *. rewrite zlen_app in Hz.
    pose proof (zlen_nonneg (if isd (TScalar k) kv && negb edv then [] else enc_ty enc_rec len_rec 1 (TScalar k) kv)).
    pose proof (zlen_nonneg (if isd vt vv && negb edv then [] else enc_ty enc_rec len_rec 2 vt vv)).
    apply toks_app.
    - destruct (isd (TScalar k) kv && negb edv); [constructor|]. apply ty_toks; [apply tag_ok_1|exact Hk|lia].
    - destruct (isd vt vv && negb edv); [constructor|]. apply ty_toks; [apply tag_ok_2|exact Hv|lia].
  Qed.

  Lemma spec_map_entry_rt k vt kv vv : key_type_ok k = true -> wt_ty wt_rec (TScalar k) kv = true -> wt_ty wt_rec vt vv = true ->
    ll_entry edv sc ll_rec isd dv vt (VL NPair [kv; vv]) -> zlen (entry_bytes edv sc dv k vt kv vv) < two64 ->
    spec_map_entry rec dflt k vt (entry_bytes edv sc dv k vt kv vv) = Some (kv, vv).
  Proof.
    intros Hkt Hk Hv [Hlv Hdef] Hz. unfold spec_map_entry.
    rewrite (toks_records_all _ _ (entry_bytes_toks k vt kv vv Hk Hv Hz)).
    assert (Hvb : zlen (match vt with TMsg j => enc_rec j vv | _ => [] end) < two64 \/ isd vt vv && negb edv = true).
    { destruct (isd vt vv && negb edv) eqn:Ev; [auto|left]. unfold entry_bytes in Hz. rewrite Ev in Hz. rewrite zlen_app in Hz.
      pose proof (zlen_nonneg (if isd (TScalar k) kv && negb edv then [] else enc_ty enc_rec len_rec 1 (TScalar k) kv)).
      eapply (msg_bound 2); [exact Hv|lia]. }
    unfold entry_toks.
    destruct (isd (TScalar k) kv && negb edv) eqn:Ek; destruct (isd vt vv && negb edv) eqn:Ev; cbn [app fold_left fst snd].
    - apply andb_prop in Ek. destruct Ek as [Ek _]. cbn [ty_is_default wt_ty] in Ek, Hk.
      destruct (scalar_module k) as [m|] eqn:Em; [|discriminate Hk].
      apply andb_prop in Ev. destruct Ev as [Ev1 Ev2]. apply negb_true_iff in Ev2.
      rewrite (key_default_exact k m kv Hkt Em Hk Ek), (Hdef Ev2 Ev1 ds Hds). reflexivity.
    - apply andb_prop in Ek. destruct Ek as [Ek _]. cbn [ty_is_default wt_ty] in Ek, Hk.
      destruct (scalar_module k) as [m|] eqn:Em; [|discriminate Hk].
      change (2 =? 1) with false. change (2 =? 2) with true. cbv iota.
      destruct Hvb as [Hvb|Hvb]; [|discriminate Hvb].
      rewrite (spec_value_rt vt (dflt vt) vv Hv Hlv Hvb (dflt_start_ok' vt)).
      rewrite (key_default_exact k m kv Hkt Em Hk Ek). reflexivity.
    - change (1 =? 1) with true. cbv iota.
      rewrite (spec_value_rt (TScalar k) (dflt (TScalar k)) kv Hk I ltac:(unfold two64; cbn; lia) I).
      apply andb_prop in Ev. destruct Ev as [Ev1 Ev2]. apply negb_true_iff in Ev2. rewrite (Hdef Ev2 Ev1 ds Hds). reflexivity.
    - change (1 =? 1) with true. change (2 =? 1) with false. change (2 =? 2) with true. cbv iota.
      rewrite (spec_value_rt (TScalar k) (dflt (TScalar k)) kv Hk I ltac:(unfold two64; cbn; lia) I). cbv iota.
      destruct Hvb as [Hvb|Hvb]; [|discriminate Hvb].
      rewrite (spec_value_rt vt (dflt vt) vv Hv Hlv Hvb (dflt_start_ok' vt)). reflexivity.
  Qed.

  (* ---------------------------------------------------------------- the tokens of one field, and folding them *)
  Definition field_toks (f : field) (x : val) : list (Z * spayload) :=
    match f, x with
    | FSingular tag t, _ => [(tag, ty_tok t x)]
    | FOptional tag t, VL NSome [e] => [(tag, ty_tok t e)]
    | FRepeated tag t, VL NRep es => map (fun e => (tag, ty_tok t e)) es
    | FMap tag k vt, VL NMap es =>
        map (fun e => match e with VL NPair [kv; vv] => (tag, PLen (entry_bytes edv sc dv k vt kv vv)) | _ => (tag, PGroup) end) es
    | FOneof ms, VL (NOne idx) [e] => match nth_error ms idx with Some (tag, t) => [(tag, ty_tok t e)] | None => [] end
    | _, _ => []
    end.

  Lemma field_toks_ok f x : Forall tag_ok (field_tags f) -> wt_field wt_rec f x = true ->
    zlen (enc_field edv enc_rec len_rec isd f x) < two64 -> toks (enc_field edv enc_rec len_rec isd f x) (field_toks f x).
  Proof.
    intros Ht Hw Hz. destruct f as [tag t|tag t|tag t|tag k vt|ms]; cbn [field_tags] in Ht.
    - inversion Ht; subst. cbn [wt_field enc_field field_toks] in *. apply ty_toks; assumption.
    - inversion Ht; subst. cbn [wt_field] in Hw. destruct x as [z|l|kd l]; try discriminate Hw. destruct kd; try discriminate Hw.
      + destruct l; [constructor|discriminate Hw].
      + destruct l as [|e [|w l]]; try discriminate Hw. cbn [enc_field field_toks] in *. apply ty_toks; assumption.
    - inversion Ht as [|? ? Htag _]; subst. cbn [wt_field] in Hw.
      destruct x as [z|l|kd es]; try discriminate Hw. destruct kd; try discriminate Hw. cbn [enc_field field_toks] in *.
      induction es as [|e es IH]; [constructor|]. cbn [forallb] in Hw. apply andb_prop in Hw. destruct Hw as [He Hes].
      rewrite zlen_flat_map_cons in Hz. cbn [flat_map map].
      pose proof (zlen_nonneg (enc_ty enc_rec len_rec tag t e)). pose proof (zlen_nonneg (flat_map (enc_ty enc_rec len_rec tag t) es)).
      apply (toks_app _ [(tag, ty_tok t e)]); [apply ty_toks; auto; lia|apply IH; auto; lia].
    - inversion Ht as [|? ? Htag _]; subst. cbn [wt_field] in Hw.
      destruct x as [z|l|kd es]; try discriminate Hw. destruct kd; try discriminate Hw. cbn [enc_field field_toks] in *.
      apply andb_prop in Hw. destruct Hw as [Hw _].
      induction es as [|e es IH]; [constructor|]. cbn [forallb] in Hw. apply andb_prop in Hw. destruct Hw as [He Hes].
      rewrite zlen_flat_map_cons in Hz. cbn [flat_map map].
      pose proof (zlen_nonneg (enc_entry edv enc_rec len_rec isd tag k vt e)).
      pose proof (zlen_nonneg (flat_map (enc_entry edv enc_rec len_rec isd tag k vt) es)).
      destruct e as [z|l|kd l]; try discriminate He. destruct kd; try discriminate He.
      destruct l as [|kv [|vv [|w l]]]; try discriminate He. apply andb_prop in He. destruct He as [Hk Hv].
      assert (Hze : zlen (enc_entry edv enc_rec len_rec isd tag k vt (VL NPair [kv; vv])) < two64) by lia.
      pose proof (entry_split' tag k vt kv vv Hk Hv Hze) as Hsp. rewrite Hsp in Hze |- *. rewrite !zlen_app in Hze.
      pose proof (zlen_nonneg (encode_key tag LengthDelimited)). pose proof (zlen_nonneg (encode_varint (zlen (entry_bytes edv sc dv k vt kv vv)))).
      apply (toks_app _ [(tag, PLen (entry_bytes edv sc dv k vt kv vv))]); [|apply IH; auto; lia].
      apply toks_one.
      + intros E. apply app_eq_nil in E. destruct E as [E _]. exact (encode_key_nonempty _ _ E).
      + intros rest f. rewrite <- !app_assoc. apply spec_record_len; [exact Htag|lia].
    - cbn [wt_field] in Hw. destruct x as [z|l|kd l]; try discriminate Hw. destruct kd; try discriminate Hw.
      + destruct l; [constructor|discriminate Hw].
      + destruct l as [|e [|w l]]; try discriminate Hw. cbn [enc_field field_toks] in *.
        destruct (nth_error ms idx) as [[tag t]|] eqn:E; [|discriminate Hw].
        apply ty_toks; auto. rewrite Forall_forall in Ht. apply Ht. apply nth_error_In in E. apply (in_map fst) in E. exact E.
  Qed.

  Lemma field_toks_tags f x : Forall (fun r : Z * spayload => existsb (Z.eqb (fst r)) (field_tags f) = true) (field_toks f x).
  Proof.
    destruct f as [tag t|tag t|tag t|tag k vt|ms]; cbn [field_toks field_tags].
    - repeat constructor. cbn. rewrite Z.eqb_refl. reflexivity.
    - destruct x as [z|l|kd l]; try constructor. destruct kd; try constructor. destruct l as [|e [|w l]]; repeat constructor.
      cbn. rewrite Z.eqb_refl. reflexivity.
    - destruct x as [z|l|kd l]; try constructor. destruct kd; try constructor.
      induction l; cbn [map]; constructor; [cbn; rewrite Z.eqb_refl; reflexivity|assumption].
    - destruct x as [z|l|kd l]; try constructor. destruct kd; try constructor.
      induction l as [|e l IH]; cbn [map]; constructor; [|assumption].
      destruct e as [z|l0|kd l0]; try (cbn; rewrite Z.eqb_refl; reflexivity). destruct kd; try (cbn; rewrite Z.eqb_refl; reflexivity).
      destruct l0 as [|kv [|vv [|w l0]]]; cbn; rewrite Z.eqb_refl; reflexivity.
    - destruct x as [z|l|kd l]; try constructor. destruct kd; try constructor. destruct l as [|e [|w l]]; try constructor.
      destruct (nth_error ms idx) as [[tag t]|] eqn:E; repeat constructor. cbn [fst].
      apply existsb_exists. exists tag. split; [|apply Z.eqb_refl]. apply nth_error_In in E. apply (in_map fst) in E. exact E.
  Qed.

  (* a repeated field takes the unpacked path for every token the encoder writes *)
  Lemma rep_apply tag t acc e : wt_ty wt_rec t e = true ->
    spec_apply_field rec dflt (FRepeated tag t) (VL NRep acc) tag (ty_tok t e)
    = match spec_value rec t (dflt t) (ty_tok t e) with Some v => Some (VL NRep (acc ++ [v])) | None => None end.
  Proof.
    intros Hw. cbn [spec_apply_field]. destruct t as [p|j]; [|reflexivity]. cbn [ty_tok wt_ty] in *.
    destruct (scalar_module p) as [m|] eqn:E; [|discriminate Hw].
    pose proof (mod_value_ok_spec p m e E Hw) as Hok.
    destruct p; destruct e as [z|l|k l]; try discriminate Hok; reflexivity.
  Qed.

  Variable dt : ty -> val.
  Hypothesis dt_ok : forall t, start_ok sc dv t (dt t).

  Lemma field_ffold f x : field_ok sc f = true -> Forall tag_ok (field_tags f) -> nodupZ (field_tags f) = true ->
    wt_field wt_rec f x = true -> ll_field edv sc ll_rec isd dv f x -> zlen (enc_field edv enc_rec len_rec isd f x) < two64 ->
    ffold rec dflt f (field_toks f x) (Some (default_field dt f)) = Some x.
  Proof.
    intros Hok Ht Hnd Hw Hl Hz. destruct f as [tag t|tag t|tag t|tag k vt|ms]; cbn [field_tags default_field] in *.
    - cbn [wt_field ll_field enc_field field_toks ffold fold_left fst snd spec_apply_field] in *.
      apply spec_value_rt; auto. eapply msg_bound; eauto.
    - cbn [wt_field] in Hw. destruct x as [z|l|kd l]; try discriminate Hw. destruct kd; try discriminate Hw.
      + destruct l; [reflexivity|discriminate Hw].
      + destruct l as [|e [|w l]]; try discriminate Hw. cbn [ll_field enc_field field_toks ffold fold_left fst snd spec_apply_field] in *.
        rewrite (spec_value_rt t (dflt t) e Hw Hl (msg_bound tag t e Hw Hz) (dflt_start_ok' t)). reflexivity.
    - cbn [wt_field] in Hw. destruct x as [z|l|kd es]; try discriminate Hw. destruct kd; try discriminate Hw.
      cbn [ll_field enc_field field_toks] in *.
      assert (G : forall acc, ffold rec dflt (FRepeated tag t) (map (fun e => (tag, ty_tok t e)) es) (Some (VL NRep acc)) = Some (VL NRep (acc ++ es))).
      { induction es as [|e es IH]; intros acc; [cbn; rewrite app_nil_r; reflexivity|].
        cbn [forallb] in Hw. apply andb_prop in Hw. destruct Hw as [He Hes]. destruct Hl as [Hle Hles].
        rewrite zlen_flat_map_cons in Hz.
        pose proof (zlen_nonneg (enc_ty enc_rec len_rec tag t e)). pose proof (zlen_nonneg (flat_map (enc_ty enc_rec len_rec tag t) es)).
        cbn [map ffold fold_left fst snd]. rewrite (rep_apply tag t acc e He).
        rewrite (spec_value_rt t (dflt t) e He Hle (msg_bound tag t e He ltac:(lia)) (dflt_start_ok' t)).
        fold (ffold rec dflt (FRepeated tag t) (map (fun e0 => (tag, ty_tok t e0)) es) (Some (VL NRep (acc ++ [e])))).
        rewrite IH by (auto; lia). rewrite <- app_assoc. reflexivity. }
      apply (G []).
    - cbn [wt_field] in Hw. destruct x as [z|l|kd es]; try discriminate Hw. destruct kd; try discriminate Hw.
      cbn [ll_field enc_field field_toks field_ok] in *.
      apply andb_prop in Hw. destruct Hw as [Hw Hndk]. apply andb_prop in Hok. destruct Hok as [Hok _]. apply andb_prop in Hok. destruct Hok as [Hkt _].
      inversion Ht as [|? ? Htag _]; subst.
      assert (G : forall acc, forallb (fun k0 => keys_fresh k0 acc) (keys_of es) = true ->
        ffold rec dflt (FMap tag k vt)
          (map (fun e => match e with VL NPair [kv; vv] => (tag, PLen (entry_bytes edv sc dv k vt kv vv)) | _ => (tag, PGroup) end) es)
          (Some (VL NMap acc)) = Some (VL NMap (acc ++ es))).
      { induction es as [|e es IH]; intros acc Hfr; [cbn; rewrite app_nil_r; reflexivity|].
        cbn [forallb] in Hw. apply andb_prop in Hw. destruct Hw as [He Hes]. destruct Hl as [Hle Hles].
        destruct e as [z|l|kd l]; try discriminate He. destruct kd; try discriminate He.
        destruct l as [|kv [|vv [|w l]]]; try discriminate He. apply andb_prop in He. destruct He as [Hk Hv].
        cbn [keys_of nodup_keys forallb] in Hndk, Hfr. apply andb_prop in Hndk. destruct Hndk as [Hnd1 Hnd2].
        apply andb_prop in Hfr. destruct Hfr as [Hfr1 Hfr2]. apply negb_true_iff in Hnd1.
        rewrite zlen_flat_map_cons in Hz.
        pose proof (zlen_nonneg (enc_entry edv enc_rec len_rec isd tag k vt (VL NPair [kv; vv]))).
        pose proof (zlen_nonneg (flat_map (enc_entry edv enc_rec len_rec isd tag k vt) es)).
        assert (Hze : zlen (enc_entry edv enc_rec len_rec isd tag k vt (VL NPair [kv; vv])) < two64) by lia.
        pose proof (entry_split' tag k vt kv vv Hk Hv Hze) as Hsp. rewrite Hsp in Hze. rewrite !zlen_app in Hze.
        pose proof (zlen_nonneg (encode_key tag LengthDelimited)). pose proof (zlen_nonneg (encode_varint (zlen (entry_bytes edv sc dv k vt kv vv)))).
        cbn [map ffold fold_left fst snd spec_apply_field].
        rewrite (spec_map_entry_rt k vt kv vv Hkt Hk Hv Hle ltac:(lia)). rewrite (map_insert_fresh kv vv acc Hfr1).
        match goal with |- fold_left ?F ?L ?A = _ => change (fold_left F L A) with (ffold rec dflt (FMap tag k vt) L A) end.
        rewrite IH; auto; [rewrite <- app_assoc; reflexivity|lia|].
        clear -Hfr2 Hnd1. induction (keys_of es) as [|k0 ks IHk]; [reflexivity|].
        cbn [forallb existsb] in *. apply andb_prop in Hfr2. destruct Hfr2 as [F1 F2]. apply orb_false_iff in Hnd1. destruct Hnd1 as [N1 N2].
        rewrite keys_fresh_snoc, F1, N1. cbn [negb andb]. apply IHk; assumption. }
      apply (G []). clear. induction (keys_of es); [reflexivity|]. cbn [forallb keys_fresh]. assumption.
    - cbn [wt_field] in Hw. destruct x as [z|l|kd l]; try discriminate Hw. destruct kd; try discriminate Hw.
      + destruct l; [reflexivity|discriminate Hw].
      + destruct l as [|e [|w l]]; try discriminate Hw. cbn [ll_field enc_field field_toks] in *.
        destruct (nth_error ms idx) as [[tag t]|] eqn:E; [|discriminate Hw].
        cbn [ffold fold_left fst snd spec_apply_field]. rewrite (find_member_nth ms idx tag t 0 Hnd E). cbn [Nat.add].
        rewrite (spec_value_rt t (dflt t) e Hw Hl (msg_bound tag t e Hw Hz) (dflt_start_ok' t)). reflexivity.
  Qed.
End SpecLevel.

(* ------------------------------------------------------------------ all fields of a message *)
Section SpecFields.
  Variable edv : bool.
  Variable sc : schema.
  Hypothesis Hs : schema_ok sc = true.
  Variables (dv ds : nat).
  Hypothesis Hds : (dv <= ds)%nat.
  Hypothesis IHmsg : forall j e Dd, wt_msg dv sc j e = true -> lossless edv dv sc j e ->
    zlen (enc_msg edv dv sc j e) < two64 -> (dv <= Dd)%nat ->
    spec_merge_msg ds sc j (default_msg Dd sc j) (enc_msg edv dv sc j e) = Some e.
  Variable dt : ty -> val.
  Hypothesis dt_ok : forall t, start_ok sc dv t (dt t).

  Local Notation enc_rec := (enc_msg edv dv sc).
  Local Notation len_rec := (len_msg edv dv sc).
  Local Notation isd := (ty_is_default dv sc).
  Local Notation wt_rec := (wt_msg dv sc).
  Local Notation ll_rec := (lossless edv dv sc).
  Local Notation rec := (spec_merge_msg ds sc).
  Local Notation dflt := (default_ty ds sc).

  Fixpoint msg_toks (fs : list field) (xs : list val) : list (Z * spayload) :=
    match fs, xs with
    | f :: fs', x :: xs' => field_toks edv sc dv f x ++ msg_toks fs' xs'
    | _, _ => []
    end.

  Lemma msg_toks_ok : forall fs xs, Forall tag_ok (flat_map field_tags fs) -> forallb2 (wt_field wt_rec) fs xs = true ->
    zlen (enc_fields edv enc_rec len_rec isd fs xs) < two64 -> toks (enc_fields edv enc_rec len_rec isd fs xs) (msg_toks fs xs).
  Proof.
    induction fs as [|f fs IH]; intros xs Ht Hw Hz; [constructor|].
    destruct (forallb2_cons_inv _ _ _ _ Hw) as (x & xs' & -> & Hwf & Hws).
    cbn [flat_map] in Ht. apply Forall_app in Ht. destruct Ht as [Ht1 Ht2]. cbn [enc_fields msg_toks] in *. rewrite zlen_app in Hz.
    pose proof (zlen_nonneg (enc_field edv enc_rec len_rec isd f x)). pose proof (zlen_nonneg (enc_fields edv enc_rec len_rec isd fs xs')).
    apply toks_app; [apply (field_toks_ok edv sc Hs dv ds Hds IHmsg); auto; lia|apply IH; auto; lia].
  Qed.

  Lemma msg_sfold : forall rest_f pre_f pre_x rest_x, length pre_f = length pre_x ->
    nodupZ (flat_map field_tags (pre_f ++ rest_f)) = true -> forallb (field_ok sc) rest_f = true ->
    Forall tag_ok (flat_map field_tags rest_f) -> forallb2 (wt_field wt_rec) rest_f rest_x = true ->
    ll_fields edv sc ll_rec isd dv rest_f rest_x -> zlen (enc_fields edv enc_rec len_rec isd rest_f rest_x) < two64 ->
    sfold rec dflt (pre_f ++ rest_f) (msg_toks rest_f rest_x) (Some (pre_x ++ map (default_field dt) rest_f)) = Some (pre_x ++ rest_x).
  Proof.
    induction rest_f as [|f rest_f IH]; intros pre_f pre_x rest_x Hl Hnd Hok Ht Hw Hll Hz.
    - destruct rest_x; [reflexivity|discriminate Hw].
    - destruct (forallb2_cons_inv _ _ _ _ Hw) as (x & xs' & -> & Hwf & Hws).
      cbn [forallb] in Hok. apply andb_prop in Hok. destruct Hok as [Hokf Hoks].
      cbn [flat_map] in Ht. apply Forall_app in Ht. destruct Ht as [Ht1 Ht2].
      cbn [ll_fields] in Hll. destruct Hll as [Hlf Hls]. cbn [enc_fields map msg_toks] in *. rewrite zlen_app in Hz.
      pose proof (zlen_nonneg (enc_field edv enc_rec len_rec isd f x)). pose proof (zlen_nonneg (enc_fields edv enc_rec len_rec isd rest_f xs')).
      pose proof Hnd as Hnd0. rewrite flat_map_app in Hnd. cbn [flat_map] in Hnd.
      assert (Hndf : nodupZ (field_tags f) = true).
      { apply nodupZ_app_r in Hnd. apply nodupZ_app_l in Hnd. exact Hnd. }
      rewrite sfold_app. rewrite sfold_field; [|exact Hl|].
      + rewrite (field_ffold edv sc Hs dv ds Hds IHmsg dt dt_ok f x Hokf Ht1 Hndf Hwf Hlf ltac:(lia)). cbn [option_map].
        replace (pre_x ++ x :: map (default_field dt) rest_f) with ((pre_x ++ [x]) ++ map (default_field dt) rest_f)
          by (rewrite <- app_assoc; reflexivity).
        replace (pre_x ++ x :: xs') with ((pre_x ++ [x]) ++ xs') by (rewrite <- app_assoc; reflexivity).
        replace (pre_f ++ f :: rest_f) with ((pre_f ++ [f]) ++ rest_f) by (rewrite <- app_assoc; reflexivity).
        apply IH; auto.
        * rewrite !app_length. cbn [length]. lia.
        * rewrite <- app_assoc. exact Hnd0.
        * lia.
      + pose proof (field_toks_tags edv sc dv f x) as Htg. rewrite Forall_forall in *. intros r Hr. split; [apply Htg; exact Hr|].
        eapply nodupZ_disjoint; [exact Hnd|]. rewrite existsb_app, (Htg r Hr). reflexivity.
  Qed.
End SpecFields.

(* ------------------------------------------------------------------ messages, by induction on the depth of the value *)
Theorem spec_merge_rt edv sc : schema_ok sc = true -> forall d j v ds Dd,
  wt_msg d sc j v = true -> lossless edv d sc j v -> zlen (enc_msg edv d sc j v) < two64 -> (d <= ds)%nat -> (d <= Dd)%nat ->
  spec_merge_msg ds sc j (default_msg Dd sc j) (enc_msg edv d sc j v) = Some v.
Proof.
  intros Hs. induction d as [|dv IH]; intros j v ds Dd Hw Hl Hz Hds HDd; [discriminate Hw|].
  destruct ds as [|ds]; [lia|]. destruct Dd as [|Dd]; [lia|].
  cbn [wt_msg lossless enc_msg] in *. destruct (nth_error sc j) as [fs|] eqn:En; [|discriminate Hw].
  destruct v as [z|l|k xs]; try discriminate Hw. destruct k; try discriminate Hw.
  rewrite (default_msg_unfold Dd sc j fs En). cbn [spec_merge_msg]. rewrite En.
  set (dt := fun t => match t with TScalar p => default_scalar p | TMsg j0 => default_msg Dd sc j0 end).
  pose proof (schema_ok_fields sc j fs Hs En) as Hok. pose proof (schema_ok_tags sc j fs Hs En) as Htags.
  assert (Hnd : nodupZ (flat_map field_tags fs) = true).
  { unfold schema_ok in Hs. apply andb_prop in Hs. apply proj1 in Hs. rewrite forallb_forall in Hs. pose proof (nth_error_In _ _ En) as Hin. specialize (Hs fs Hin).
    unfold msgdesc_ok in Hs. apply andb_prop in Hs. tauto. }
  assert (IH' : forall j0 e Dd0, wt_msg dv sc j0 e = true -> lossless edv dv sc j0 e -> zlen (enc_msg edv dv sc j0 e) < two64 ->
                (dv <= Dd0)%nat -> spec_merge_msg ds sc j0 (default_msg Dd0 sc j0) (enc_msg edv dv sc j0 e) = Some e).
  { intros. apply IH; auto; lia. }
  rewrite (toks_records_all _ _ (msg_toks_ok edv sc Hs dv ds ltac:(lia) IH' fs xs Htags Hw Hz)).
  assert (Hdt : forall t, start_ok sc dv t (dt t)).
  { intros [p|j0]; cbn [start_ok]; [exact I|]. exists Dd. split; [lia|reflexivity]. }
  pose proof (msg_sfold edv sc Hs dv ds ltac:(lia) IH' dt Hdt fs [] [] xs eq_refl Hnd Hok Htags Hw Hl Hz) as G.
  cbn [app] in G. unfold sfold in G. rewrite G. reflexivity.
Qed.

(* C06_out *)
Theorem spec_decode_rt edv sc d i v : schema_ok sc = true -> wt_msg d sc i v = true -> lossless edv d sc i v ->
  zlen (enc_msg edv d sc i v) < two64 -> (d <= depth_fuel)%nat ->
  spec_decode_msg sc i (enc_msg edv d sc i v) = Some v.
Proof. intros. unfold spec_decode_msg. apply spec_merge_rt; auto. Qed.

Example spec_decode_nonvacuous :
  spec_decode_msg rt_schema 0 (enc_msg false 2 rt_schema 0 rt_value) = Some rt_value /\
  spec_decode_msg rt_schema 0 (enc_msg true 2 rt_schema 0 rt_value) = Some rt_value.
Proof.
  destruct msg_roundtrip_nonvacuous as (S1 & S2 & S3 & _).
  split; apply spec_decode_rt; auto; try apply lossless_edv; try (vm_compute; reflexivity); unfold depth_fuel; vm_compute; lia.
Qed.

(* F-06b: what pilota writes for map<int32, double> { 5: -0.0 } with the feature off is, for a conforming reader, { 5: +0.0 } *)
Theorem spec_out_negzero_refuted :
  let sc := [[FMap 1 TYPE_INT32 (TScalar TYPE_DOUBLE)]] in
  let v := VL NMsg [VL NMap [VL NPair [VI 5; VI 9223372036854775808]]] in
  schema_ok sc = true /\ wt_msg 1 sc 0 v = true /\
  spec_decode_msg sc 0 (enc_msg false 1 sc 0 v) = Some (VL NMsg [VL NMap [VL NPair [VI 5; VI 0]]]) /\
  spec_decode_msg sc 0 (enc_msg true 1 sc 0 v) = Some v.
Proof. cbv zeta. vm_compute. repeat split; reflexivity. Qed.
