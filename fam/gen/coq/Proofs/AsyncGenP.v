(* C12 at the generated-code level: the emitted decode_async (GenAsync.gen_decode_async) against the emitted
   in-memory decoder (Gen.gen_decode).
     - whenever the in-memory decoder returns a value, the asynchronous decoder returns the same value from the
       same byte string and stops at the same position with the same field-id context (it has pulled exactly
       the bytes the in-memory decoder consumed): simulation up to the pending-bool-field flag, which only the
       TLengthProtocol calls of the sync templates touch (erase, Proofs/TotalGenP.v);
     - composed with C02: what the emitted encoder writes is decoded asynchronously to the value (defaults
       filled in), pulling exactly the message;
     - the result depends on the stream only through the concatenation of its chunks; tokio's read_exact loop
       over a chunked stream (GenAsync.pull) is `take` on the concatenation. *)
From PV Require Import Thrift.Skip Proofs.TablesP Proofs.PrimP Proofs.HeaderP Proofs.RoundtripP Proofs.TotalP Proofs.AsyncP Proofs.SkipP.
From PVGen Require Import Gen GenSpec GenAsync Proofs.GenBase Proofs.EncP Proofs.RoundP Proofs.OwnP Proofs.TotalGenP.
From Coq Require Import ZifyN ZifyNat ZifyBool.
Open Scope Z_scope.

Definition small (s : rst) : Prop := Z.of_nat (blen s) < 2 ^ 63.     (* buffers fit in isize: a Rust guarantee *)

(* [a] simulates [r] up to the flag: from the erased start state it returns the same value and the erased end state *)
Definition ASIM {A} (r a : rm A) : Prop :=
  forall s x s', small s -> r s = Ok (x, s') -> a (erase s) = Ok (x, erase s') /\ (blen s' <= blen s)%nat.

Lemma inv_erase s : small s -> inv (erase s).
Proof. intros H. split; [reflexivity|exact H]. Qed.

Lemma ASIM_prim {A} (r a : rm A) : ERA r -> (forall s, inv s -> sim s (r s) (a s)) -> ASIM r a.
Proof.
  intros He Hs s x s' Hsm H. apply He in H. specialize (Hs (erase s) (inv_erase s Hsm)).
  rewrite H in Hs. cbn [sim] in Hs. destruct Hs as (-> & _ & Hl). split; [reflexivity|exact Hl].
Qed.

Lemma ASIM_bind {A B} (r a : rm A) (f g : A -> rm B) :
  ASIM r a -> (forall x, ASIM (f x) (g x)) ->
  ASIM (fun s => let* (x, s1) := r s in f x s1) (fun s => let* (x, s1) := a s in g x s1).
Proof.
  intros Hr Hf s y s' Hsm H. binv H. destruct (Hr _ _ _ Hsm E) as [Ea Hl]. rewrite Ea. cbn [bind].
  assert (Hsm0 : small s0) by (unfold small in *; lia).
  destruct (Hf x _ _ _ Hsm0 H) as [Eb Hl2]. split; [exact Eb|lia].
Qed.

Lemma ASIM_ret {A} (x : A) : ASIM (fun s => Ok (x, s)) (fun s => Ok (x, s)).
Proof. intros s y s' _ H. injection H as <- <-. split; [reflexivity|lia]. Qed.

Lemma ASIM_map {A B} (r a : rm A) (g : A -> B) :
  ASIM r a -> ASIM (fun s => let* (x, s1) := r s in Ok (g x, s1)) (fun s => let* (x, s1) := a s in Ok (g x, s1)).
Proof. intros H. apply (ASIM_bind r a (fun x s1 => Ok (g x, s1)) (fun x s1 => Ok (g x, s1)) H). intros x. apply ASIM_ret. Qed.

Lemma ASIM_bool p : ASIM (r_bool p) (a_bool p).
Proof. apply ASIM_prim; [apply ERA_bool|apply bool_sim]. Qed.
Lemma ASIM_i8 : ASIM r_i8 a_i8.
Proof. apply ASIM_prim; [apply ERA_i8|apply i8_sim]. Qed.
Lemma ASIM_i16 p : ASIM (r_i16 p) (a_i16 p).
Proof. apply ASIM_prim; [apply ERA_i16|apply i16_sim]. Qed.
Lemma ASIM_i32 p : ASIM (r_i32 p) (a_i32 p).
Proof. apply ASIM_prim; [apply ERA_i32|apply i32_sim]. Qed.
Lemma ASIM_i64 p : ASIM (r_i64 p) (a_i64 p).
Proof. apply ASIM_prim; [apply ERA_i64|apply i64_sim]. Qed.
Lemma ASIM_double p : ASIM (r_double p) (a_double p).
Proof. apply ASIM_prim; [apply ERA_double|apply double_sim]. Qed.
Lemma ASIM_bytes p : ASIM (r_bytes p) (a_bytes p).
Proof. apply ASIM_prim; [apply ERA_bytes|apply bytes_sim]. Qed.
Lemma ASIM_uuid : ASIM r_uuid a_uuid.
Proof. apply ASIM_prim; [apply ERA_uuid|apply uuid_sim]. Qed.
Lemma ASIM_struct_begin p : ASIM (r_struct_begin p) (a_struct_begin p).
Proof. apply ASIM_prim; [apply ERA_struct_begin|apply struct_begin_sim]. Qed.
Lemma ASIM_struct_end p : ASIM (r_struct_end p) (a_struct_end p).
Proof. apply ASIM_prim; [apply ERA_struct_end|apply struct_end_sim]. Qed.
Lemma ASIM_field_begin p : ASIM (r_field_begin p) (a_field_begin p).
Proof. apply ASIM_prim; [apply ERA_field_begin|apply field_begin_sim]. Qed.
Lemma ASIM_coll_begin p : ASIM (r_coll_begin p) (a_coll_begin p).
Proof. apply ASIM_prim; [apply ERA_coll_begin|apply coll_begin_sim]. Qed.
Lemma ASIM_map_begin p : ASIM (r_map_begin p) (a_map_begin p).
Proof. apply ASIM_prim; [apply ERA_map_begin|apply map_begin_sim]. Qed.

(* the skipper of the sync templates (read and discard, depth test) against TAsyncInputProtocol::skip *)
Lemma skip_depth_eq : skip_depth = maximum_skip_depth_nat.
Proof. reflexivity. Qed.

Lemma ASIM_skip p fk ft :
  ASIM (fun s => let* (_, s1) := skip p fk ft s in Ok (tt, s1)) (askip p fk ft).
Proof.
  intros s u s' Hsm H. unfold skip in H.
  destruct (read_val p fk ft s) as [[v s1]| |] eqn:E; cbn [bind] in H; try discriminate.
  destruct (Nat.leb (vdepth v) maximum_skip_depth_nat) eqn:Ed; cbn [bind] in H; [|discriminate].
  injection H as <- <-. apply Nat.leb_le in Ed.
  pose proof (ERA_read_val p fk ft _ _ _ E) as E1.
  pose proof (aread_val_sim p fk ft (erase s) (inv_erase s Hsm)) as Sm. rewrite E1 in Sm. cbn [sim] in Sm.
  destruct Sm as (Ea & _ & Hl).
  destruct (askip_sim p fk ft (erase s) v (erase s1) Ea skip_depth) as [Hok _].
  unfold askip. rewrite Hok by (rewrite skip_depth_eq; exact Ed). split; [reflexivity|exact Hl].
Qed.

(* the TLengthProtocol calls change nothing but the flag *)
Lemma fbl_erase p ft id s n s' : r_field_begin_len p ft id s = Ok (n, s') -> erase s' = erase s.
Proof.
  unfold r_field_begin_len. destruct p; try (intros H; injection H as _ <-; reflexivity).
  destruct ft; try (destruct (ctype_of_ttype _); [destruct id|]; intros H; try discriminate; injection H as _ <-; reflexivity).
  destruct (r_pfield (rc s)); [discriminate|]. intros H. injection H as _ <-. reflexivity.
Qed.
Lemma assert_same p n s k s' : r_assert_no_pending p n s = Ok (k, s') -> s' = s.
Proof.
  unfold r_assert_no_pending. destruct p; try (intros H; injection H as _ <-; reflexivity).
  destruct (r_pfield (rc s)); [discriminate|]. intros H. injection H as _ <-. reflexivity.
Qed.

Section LoopsSim.
  Variable S : schema.
  Variable p : pk.
  Variable fk : nat.
  Variables rec arec : ty -> rm gval.
  Hypothesis Hrec : forall t, ASIM (rec t) (arec t).

  Lemma ASIM_elems : forall m et n acc,
    ASIM (fun s => dec_elems rec m et n s acc) (fun s => dec_elems arec m et n s acc).
  Proof using Hrec.
    induction m as [|m IH]; intros et n acc s x s' Hsm H; cbn [dec_elems] in *.
    - destruct (n <=? 0); [injection H as <- <-; split; [reflexivity|lia]|discriminate].
    - destruct (n <=? 0); [injection H as <- <-; split; [reflexivity|lia]|].
      apply (ASIM_bind (rec et) (arec et) (fun x s1 => dec_elems rec m et (n - 1) s1 (x :: acc))
               (fun x s1 => dec_elems arec m et (n - 1) s1 (x :: acc)) (Hrec et) (fun x => IH et (n - 1) (x :: acc)) s x s' Hsm H).
  Qed.

  Lemma ASIM_pairs : forall m kt vt n acc,
    ASIM (fun s => dec_pairs rec m kt vt n s acc) (fun s => dec_pairs arec m kt vt n s acc).
  Proof using Hrec.
    induction m as [|m IH]; intros kt vt n acc s x s' Hsm H; cbn [dec_pairs] in *.
    - destruct (n <=? 0); [injection H as <- <-; split; [reflexivity|lia]|discriminate].
    - destruct (n <=? 0); [injection H as <- <-; split; [reflexivity|lia]|].
      apply (ASIM_bind (rec kt) (arec kt)
               (fun a s1 => let* (b, s2) := rec vt s1 in dec_pairs rec m kt vt (n - 1) s2 ((a, b) :: acc))
               (fun a s1 => let* (b, s2) := arec vt s1 in dec_pairs arec m kt vt (n - 1) s2 ((a, b) :: acc)) (Hrec kt)) with (s := s); auto.
      intros a. apply (ASIM_bind (rec vt) (arec vt) (fun b s2 => dec_pairs rec m kt vt (n - 1) s2 ((a, b) :: acc))
               (fun b s2 => dec_pairs arec m kt vt (n - 1) s2 ((a, b) :: acc)) (Hrec vt)).
      intros b. apply IH.
  Qed.

  Lemma ASIM_fields : forall m fs vars,
    ASIM (fun s => dec_fields S p fk rec m fs vars s) (fun s => adec_fields S p fk arec m fs vars s).
  Proof using Hrec.
    induction m as [|m IH]; intros fs vars s x s' Hsm H; [discriminate|].
    cbn [dec_fields adec_fields] in *. binv H.
    destruct (ASIM_field_begin p _ _ _ Hsm E) as [Ea Hl]. rewrite Ea. cbn [bind].
    assert (Hsm0 : small s0) by (unfold small in *; lia).
    destruct (ttype_eqb (fst x0) TStop).
    { binv H. injection H as <- <-. apply assert_same in E0. subst s1. split; [reflexivity|exact Hl]. }
    binv H. pose proof (fbl_erase _ _ _ _ _ _ E0) as Ee.
    assert (Hb1 : blen s1 = blen s0) by (rewrite <- (erase_blen s1), Ee; reflexivity).
    assert (Hsm1 : small s1) by (unfold small in *; lia).
    binv H. rename x2 into vars2.
    assert (Hstep : (match match_field S fs 0 (snd x0) (fst x0) with
                     | Some (i, f) => let* (x, s) := arec (f_ty f) (erase s1) in Ok (set_nth i (Some x) vars, s)
                     | None => let* (_, s) := askip p fk (fst x0) (erase s1) in Ok (vars, s)
                     end) = Ok (vars2, erase s2) /\ (blen s2 <= blen s1)%nat).
    { destruct (match_field S fs 0 (snd x0) (fst x0)) as [[i f]|].
      - binv E1. injection E1 as <- <-. destruct (Hrec _ _ _ _ Hsm1 E2) as [Eb Hl2]. rewrite Eb. split; [reflexivity|exact Hl2].
      - binv E1. injection E1 as <- <-.
        destruct (ASIM_skip p fk (fst x0) s1 tt s3 Hsm1) as [Eb Hl2]; [rewrite E2; reflexivity|].
        rewrite Eb. split; [reflexivity|exact Hl2]. }
    destruct Hstep as [Est Hl2]. rewrite <- Ee, Est. cbn [bind].
    binv H. apply assert_same in E2. subst s3.
    assert (Hsm2 : small s2) by (unfold small in *; lia).
    destruct (IH fs vars2 s2 x s' Hsm2 H) as [Ef Hl3]. split; [exact Ef|lia].
  Qed.

  Lemma ASIM_variants : forall m vs ret,
    ASIM (fun s => dec_variants S p fk rec m vs ret s) (fun s => adec_variants S p fk arec m vs ret s).
  Proof using Hrec.
    induction m as [|m IH]; intros vs ret s x s' Hsm H; [discriminate|].
    cbn [dec_variants adec_variants] in *. binv H.
    destruct (ASIM_field_begin p _ _ _ Hsm E) as [Ea Hl]. rewrite Ea. cbn [bind].
    assert (Hsm0 : small s0) by (unfold small in *; lia).
    destruct (ttype_eqb (fst x0) TStop).
    { binv H. injection H as <- <-. apply assert_same in E0. subst s1. split; [reflexivity|exact Hl]. }
    binv H. pose proof (fbl_erase _ _ _ _ _ _ E0) as Ee.
    assert (Hb1 : blen s1 = blen s0) by (rewrite <- (erase_blen s1), Ee; reflexivity).
    assert (Hsm1 : small s1) by (unfold small in *; lia).
    rewrite <- Ee.
    match type of H with (match ?k with Some _ => _ | None => _ end) = _ => destruct k as [[id vt]|] end.
    - destruct ret; [discriminate|]. binv H.
      destruct (Hrec _ _ _ _ Hsm1 E1) as [Eb Hl2]. rewrite Eb. cbn [bind].
      assert (Hsm2 : small s2) by (unfold small in *; lia).
      destruct (IH vs (Some (id, x2)) s2 x s' Hsm2 H) as [Ef Hl3]. split; [exact Ef|lia].
    - binv H.
      destruct (ASIM_skip p fk (fst x0) s1 tt s2 Hsm1) as [Eb Hl2]; [rewrite E1; reflexivity|].
      rewrite Eb. cbn [bind].
      assert (Hsm2 : small s2) by (unfold small in *; lia).
      destruct (IH vs ret s2 x s' Hsm2 H) as [Ef Hl3]. split; [exact Ef|lia].
  Qed.
End LoopsSim.

Theorem gen_async_sim S p : forall f t, ASIM (gen_decode S p f t) (gen_decode_async S p f t).
Proof.
  induction f as [|f IH]; intros t s x s' Hsm H; [discriminate|].
  rewrite gen_decode_S in H. rewrite gen_decode_async_S.
  destruct (resolve S t) as [| | | | | | | | | |et|et|kt vt|n].
  - exact (ASIM_map _ _ GBool (ASIM_bool p) s x s' Hsm H).
  - exact (ASIM_map _ _ GI8 ASIM_i8 s x s' Hsm H).
  - exact (ASIM_map _ _ GI16 (ASIM_i16 p) s x s' Hsm H).
  - exact (ASIM_map _ _ GI32 (ASIM_i32 p) s x s' Hsm H).
  - exact (ASIM_map _ _ GI64 (ASIM_i64 p) s x s' Hsm H).
  - exact (ASIM_map _ _ GDouble (ASIM_double p) s x s' Hsm H).
  - exact (ASIM_map _ _ GBytes (ASIM_bytes p) s x s' Hsm H).
  - exact (ASIM_map _ _ GBytes (ASIM_bytes p) s x s' Hsm H).
  - exact (ASIM_map _ _ GUuid ASIM_uuid s x s' Hsm H).
  - exact (ASIM_bind _ _ _ _ (ASIM_struct_begin p)
             (fun _ => ASIM_map _ _ (fun _ => GVoid) (ASIM_struct_end p)) s x s' Hsm H).
  - exact (ASIM_bind _ _ _ _ (ASIM_coll_begin p)
             (fun h => ASIM_map _ _ GList (ASIM_elems _ _ IH (Datatypes.S f) et (snd h) [])) s x s' Hsm H).
  - exact (ASIM_bind _ _ _ _ (ASIM_coll_begin p)
             (fun h => ASIM_map _ _ GSet (ASIM_elems _ _ IH (Datatypes.S f) et (snd h) [])) s x s' Hsm H).
  - exact (ASIM_bind _ _ _ _ (ASIM_map_begin p)
             (fun h => ASIM_map _ _ GMap (ASIM_pairs _ _ IH (Datatypes.S f) kt vt (snd h) [])) s x s' Hsm H).
  - destruct (lookup S n) as [[fs kp ia|vs vo kp|ms|tt]|]; try discriminate.
    + revert H. apply (ASIM_bind _ _ _ _ (ASIM_struct_begin p)); [|exact Hsm]. intros u.
      apply (ASIM_bind _ _ _ _ (ASIM_fields S p f _ _ IH (Datatypes.S f) fs (map init_var fs))). intros vars.
      apply (ASIM_bind _ _ _ _ (ASIM_struct_end p)). intros u2 s0 y s0' _ H0.
      destruct (finish_fields fs vars) as [out| |]; cbn [bind] in *; try discriminate.
      injection H0 as <- <-. split; [reflexivity|lia].
    + revert H. apply (ASIM_bind _ _ _ _ (ASIM_struct_begin p)); [|exact Hsm]. intros u.
      apply (ASIM_bind _ _ _ _ (ASIM_variants S p f _ _ IH (Datatypes.S f) vs None)). intros ret.
      apply (ASIM_bind _ _ _ _ (ASIM_struct_end p)). intros u2 s0 y s0' _ H0.
      destruct ret as [[id z]|]; [injection H0 as <- <-; split; [reflexivity|lia]|].
      destruct vo; [|discriminate]. destruct vs as [|[id0 t0] r]; [discriminate|].
      injection H0 as <- <-. split; [reflexivity|lia].
    + exact (ASIM_map _ _ GEnum (ASIM_i32 p) s x s' Hsm H).
Qed.

(* C12_gen_value: sync Ok (v, rest state) => async Ok v, stopping at the same position: same unread bytes, same
   field-id context (the end states differ at most in the pending-bool-field flag, which the async readers
   do not have) *)
Theorem gen_async_value S p f t l rcx v s' :
  r_pfield rcx = false -> Z.of_nat (length l) < 2 ^ 63 ->
  gen_decode S p f t (mkS l rcx) = Ok (v, s') ->
  gen_decode_async S p f t (mkS l rcx) = Ok (v, erase s').
Proof.
  intros Hp Hl H. destruct (gen_async_sim S p f t (mkS l rcx) v s' Hl H) as [E _].
  rewrite erase_id in E by exact Hp. exact E.
Qed.

Corollary gen_async_value_top S p t l v rest :
  Z.of_nat (length l) < 2 ^ 63 ->
  gen_decode_top S p t l = Ok (v, rest) -> gen_decode_async_top S p t l = Ok (v, rest).
Proof.
  intros Hl H. unfold gen_decode_top in H. unfold gen_decode_async_top.
  destruct (gen_decode S p (length l + 80) t (mkS l r0)) as [[v0 s0]| |] eqn:E; cbn [bind] in H; try discriminate.
  injection H as <- <-. rewrite (gen_async_value S p _ t l r0 v0 s0 eq_refl Hl E). reflexivity.
Qed.

(* bytes pulled from the stream = bytes the in-memory decoder consumed *)
Corollary gen_async_pulled S p f t l rcx v s' a' :
  r_pfield rcx = false -> Z.of_nat (length l) < 2 ^ 63 ->
  gen_decode S p f t (mkS l rcx) = Ok (v, s') ->
  gen_decode_async S p f t (mkS l rcx) = Ok (v, a') -> rbuf a' = rbuf s'.
Proof. intros Hp Hl H Ha. rewrite (gen_async_value S p f t l rcx v s' Hp Hl H) in Ha. injection Ha as <-. reflexivity. Qed.

(* composed with C02: what the emitted encoder wrote is decoded asynchronously to the value with defaults filled in,
   pulling exactly the message and nothing of what follows on the stream *)
Theorem gen_async_roundtrip S p k t v :
  wf_schema S = true -> has_type S t v = true ->
  forall c, w_pend c = None ->
  exists ss, enc_ty S p k t v c = Ok (ss, c) /\
    forall fuel r rcx, (vsize (to_tval S t v) <= fuel)%nat -> idle rcx -> Z.of_nat (length (flat ss ++ r)) < 2 ^ 63 ->
      gen_decode_async S p fuel t (mkS (flat ss ++ r) rcx) = Ok (fill_defaults S t v, mkS r rcx).
Proof.
  intros Hwf Ht c Hp. destruct (gen_roundtrip S p k t v Hwf Ht c Hp) as (ss & Hw & Hr).
  exists ss. split; [exact Hw|]. intros fuel r rcx Hf Hi Hl.
  rewrite (gen_async_value S p fuel t _ rcx _ _ (proj2 Hi) Hl (Hr fuel r rcx Hf Hi)).
  rewrite erase_id by (exact (proj2 Hi)). reflexivity.
Qed.

(* ---------- delivery schedules ---------- *)
(* read_exact's loop over a chunked stream hands out exactly what `take` hands out on the concatenation *)
Lemma pull_concat : forall cs n,
  match pull n cs with
  | Some (a, cs') => take n (concat cs) = Some (a, concat cs')
  | None => take n (concat cs) = None
  end.
Proof.
  induction cs as [|c r IH]; intros n; cbn [pull concat].
  - destruct n; reflexivity.
  - destruct n as [|n]; [reflexivity|].
    destruct (Nat.leb (Datatypes.S n) (length c)) eqn:E.
    + apply Nat.leb_le in E. unfold take. rewrite app_length.
      replace (Nat.leb (Datatypes.S n) (length c + length (concat r))) with true by (symmetry; apply Nat.leb_le; lia).
      rewrite firstn_app, skipn_app.
      replace (Datatypes.S n - length c)%nat with 0%nat by lia. cbn [firstn skipn]. rewrite app_nil_r. reflexivity.
    + apply Nat.leb_gt in E. specialize (IH (Datatypes.S n - length c)%nat).
      unfold take in *. rewrite app_length.
      destruct (pull (Datatypes.S n - length c) r) as [[a r']|].
      * destruct (Nat.leb (Datatypes.S n - length c) (length (concat r))) eqn:E2; [|discriminate].
        apply Nat.leb_le in E2.
        replace (Nat.leb (Datatypes.S n) (length c + length (concat r))) with true by (symmetry; apply Nat.leb_le; lia).
        injection IH as <- <-. rewrite firstn_app, skipn_app.
        rewrite firstn_all2 by lia. rewrite skipn_all2 by lia. reflexivity.
      * destruct (Nat.leb (Datatypes.S n - length c) (length (concat r))) eqn:E2; [discriminate|].
        apply Nat.leb_gt in E2.
        replace (Nat.leb (Datatypes.S n) (length c + length (concat r))) with false by (symmetry; apply Nat.leb_gt; lia).
        reflexivity.
Qed.

(* C12_gen_schedule_free: any two delivery schedules of the same bytes give the same result *)
Theorem gen_async_schedule_free S p fuel t cs1 cs2 :
  concat cs1 = concat cs2 -> gen_decode_async_stream S p fuel t cs1 = gen_decode_async_stream S p fuel t cs2.
Proof. unfold gen_decode_async_stream. intros ->. reflexivity. Qed.

(* byte-at-a-time delivery is one of them *)
Lemma concat_singletons (l : list byte) : concat (map (fun b => [b]) l) = l.
Proof. induction l as [|b r IH]; cbn [map concat app]; [reflexivity|]. rewrite IH. reflexivity. Qed.

Corollary gen_async_bytewise S p fuel t l :
  gen_decode_async_stream S p fuel t (map (fun b => [b]) l) = gen_decode_async_stream S p fuel t [l].
Proof. apply gen_async_schedule_free. rewrite concat_singletons. cbn [concat]. rewrite app_nil_r. reflexivity. Qed.

(* non-vacuity: the struct of TotalGenP.ex_schema, compact, delivered in three chunks with an empty one *)
Example ex_async :
  gen_decode_async_stream ex_schema PCompact 20 (TyRef 0) [[x15; x0e; x19]; []; [x18; x01; x61; x11; x00]]%byte
  = Ok (ex_value, mkS [] r0).
Proof. vm_compute. reflexivity. Qed.
