From PV Require Import Base.Varint.
From Coq Require Import ZifyN ZifyNat ZifyBool.
Open Scope Z_scope.

Lemma enc_var_small f n : 0 <= n < 128 -> enc_var f n = [z2b n].
Proof. intros H. destruct f; cbn [enc_var]; auto. replace (n <? 128) with true by lia. reflexivity. Qed.

(* [j]+1 bounds the number of bytes the encoder really produces *)
Lemma rd_enc_gen : forall j f n k shift acc rest,
  0 <= n < 128 ^ Z.of_nat (S j) -> (j <= f)%nat -> (S j <= k)%nat -> 0 <= shift ->
  rd_var k shift acc (enc_var f n ++ rest) = Ok ((acc + n * 2 ^ shift) mod two64, rest).
Proof.
  induction j as [|j IH]; intros f n k shift acc rest Hn Hf Hk Hs.
  - destruct k as [|k]; [lia|].
    change (128 ^ Z.of_nat 1) with 128 in Hn.
    rewrite enc_var_small by lia.
    cbn [app rd_var]. rewrite b2z_z2b.
    rewrite (Z.mod_small n 256) by lia.
    rewrite (Z.mod_small n 128) by lia.
    replace (n <? 128) with true by lia. reflexivity.
  - destruct k as [|k]; [lia|].
    destruct (Z.ltb_spec n 128) as [Hlt|Hge].
    + rewrite enc_var_small by lia.
      cbn [app rd_var]. rewrite b2z_z2b.
      rewrite (Z.mod_small n 256) by lia.
      rewrite (Z.mod_small n 128) by lia.
      replace (n <? 128) with true by lia. reflexivity.
    + destruct f as [|f]; [lia|].
      cbn [enc_var]. replace (n <? 128) with false by lia.
      cbn [app rd_var]. rewrite b2z_z2b.
      assert (Hm : 0 <= n mod 128 < 128) by (apply Z.mod_pos_bound; lia).
      rewrite (Z.mod_small (128 + n mod 128) 256) by lia.
      replace ((128 + n mod 128) mod 128) with (n mod 128).
      2:{ rewrite <- Zplus_mod_idemp_l. rewrite Z.mod_same by lia. rewrite Z.add_0_l.
          rewrite Z.mod_mod by lia. reflexivity. }
      replace (128 + n mod 128 <? 128) with false by lia.
      rewrite IH.
      * f_equal. f_equal.
        rewrite Z.pow_add_r by lia. change (2 ^ 7) with 128.
        pose proof (Z.div_mod n 128 ltac:(lia)) as E.
        set (q := n / 128) in *. set (r := n mod 128) in *. set (p := 2 ^ shift).
        clearbody q r p. subst n. f_equal. ring.
      * rewrite Nat2Z.inj_succ, Z.pow_succ_r in Hn by lia.
        split; [apply Z.div_pos; lia|].
        apply Z.div_lt_upper_bound; lia.
      * lia.
      * lia.
      * lia.
Qed.

(* a value below 128^k is read back by a reader that accepts k bytes (k <= 10) *)
Lemma read_encode_var n k rest :
  (1 <= k <= 10)%nat -> 0 <= n < 128 ^ Z.of_nat k -> n < two64 ->
  read_var_u64 k (encode_var n ++ rest) = Ok (n, rest).
Proof.
  intros Hk Hn H64. unfold read_var_u64, encode_var.
  destruct k as [|j]; [lia|].
  rewrite (rd_enc_gen j); try lia.
  rewrite Z.mul_1_r, Z.add_0_l. rewrite Z.mod_small by lia. reflexivity.
Qed.

Lemma zigzag_range v : - 2 ^ 63 <= v < 2 ^ 63 -> 0 <= zigzag v < two64.
Proof.
  intros H. unfold zigzag, two64. change (2 ^ 64) with (2 * 2 ^ 63).
  destruct (Z.ltb_spec v 0); lia.
Qed.

Lemma unzigzag_zigzag v : unzigzag (zigzag v) = v.
Proof.
  unfold unzigzag, zigzag.
  destruct (Z.ltb_spec v 0).
  - destruct (Z.eqb_spec ((- 2 * v - 1) mod 2) 0); lia.
  - destruct (Z.eqb_spec ((2 * v) mod 2) 0); lia.
Qed.
