//! pv-gen-pb: line-oriented driver over the code that the REAL pilota-build generates for the pb
//! corpus (fam/pb/proto/*.proto) plus the well-known wrapper impls of pilota/src/prost/types.rs.
//! One case line in on stdin, exactly one result line out.
//!
//!   dec    <idx> <hex>          Message::decode(Bytes)
//!   decq   <idx> <hex>          same, but the value is not rendered with {:?} (arbitrary bytes may
//!                               leave invalid UTF-8 in a FastStr)
//!   merge  <idx> <hex1> <hex2>  decode hex1, then Message::merge(&mut m, hex2)
//!   mergeq <idx> <hex1> <hex2>
//!   declen <idx> <hex>          Message::decode_length_delimited (quiet)
//!   lendelim <hex>              pilota::prost::decode_length_delimiter
//!   leak   <idx> <hex>          Message::decode(Bytes) (zero-copy path), then the result (value or error) and the
//!                               input are dropped:  ok|err LIVE <live heap bytes after - before> REFS <0|1>
//!                               REFS 1 = a second handle to the input Bytes is not unique after the result was dropped
//!                               ... HELD <live heap blocks while the result is held, above the level before the decode>
//!                               HREFS <0|1> (1 = the result references the input buffer)
//!   info   <idx>                NAME <proto name> SIZE <size_of>
//!   count                       N <number of message types>
//!
//! results:  OK L<encoded_len> E<hex of encode_to_vec> P<peak> [D <{:?}>]  [ORACLE-FAIL <why>]
//!           ERR <class> P<peak>      PANIC <msg>      BADCASE <why>
//! <hex> is lowercase hex, `-` for the empty string.  P = peak live heap bytes above the level at
//! the start of the case (input buffer excluded), measured by a counting global allocator.
#[allow(warnings, clippy::all)]
mod generated {
    include!(concat!(env!("OUT_DIR"), "/pb_generated.rs"));
}

use std::{
    fmt::Debug,
    io::{BufRead, Write},
    panic::{catch_unwind, AssertUnwindSafe},
    sync::atomic::{AtomicUsize, Ordering::Relaxed},
};

use bytes::{Bytes, BytesMut};
use pilota::prost::Message;

pub struct Counting;
static LIVE: AtomicUsize = AtomicUsize::new(0);
static PEAK: AtomicUsize = AtomicUsize::new(0);
static BLOCKS: AtomicUsize = AtomicUsize::new(0);
unsafe impl std::alloc::GlobalAlloc for Counting {
    unsafe fn alloc(&self, l: std::alloc::Layout) -> *mut u8 {
        // a request above 4 GiB would be satisfied lazily by the OS and go unnoticed: refuse it
        // (Rust then aborts, which the Python side reports as a crash of the case)
        if l.size() > (4usize << 30) {
            return std::ptr::null_mut();
        }
        let p = std::alloc::System.alloc(l);
        if !p.is_null() {
            BLOCKS.fetch_add(1, Relaxed);
            let live = LIVE.fetch_add(l.size(), Relaxed) + l.size();
            PEAK.fetch_max(live, Relaxed);
        }
        p
    }
    unsafe fn dealloc(&self, p: *mut u8, l: std::alloc::Layout) {
        LIVE.fetch_sub(l.size(), Relaxed);
        BLOCKS.fetch_sub(1, Relaxed);
        std::alloc::System.dealloc(p, l)
    }
    unsafe fn realloc(&self, p: *mut u8, l: std::alloc::Layout, new_size: usize) -> *mut u8 {
        if new_size > (4usize << 30) {
            return std::ptr::null_mut();
        }
        // worst case both blocks are live during the copy
        let live = LIVE.fetch_add(new_size, Relaxed) + new_size;
        PEAK.fetch_max(live, Relaxed);
        let q = std::alloc::System.realloc(p, l, new_size);
        if q.is_null() {
            LIVE.fetch_sub(new_size, Relaxed);
        } else {
            LIVE.fetch_sub(l.size(), Relaxed);
        }
        q
    }
}
#[global_allocator]
static GLOBAL: Counting = Counting;

struct Peak(usize);
impl Peak {
    fn start() -> Peak {
        let before = LIVE.load(Relaxed);
        PEAK.store(before, Relaxed);
        Peak(before)
    }
    fn get(&self) -> usize {
        PEAK.load(Relaxed).saturating_sub(self.0)
    }
}

pub enum Op {
    Dec { data: Vec<u8>, quiet: bool },
    Merge { a: Vec<u8>, b: Vec<u8>, quiet: bool },
    DecLen { data: Vec<u8> },
    Leak { data: Vec<u8> },
    Info,
}

fn hex(b: &[u8]) -> String {
    if b.is_empty() {
        return "-".into();
    }
    let mut s = String::with_capacity(b.len() * 2);
    for x in b {
        s.push(char::from_digit((x >> 4) as u32, 16).unwrap());
        s.push(char::from_digit((x & 15) as u32, 16).unwrap());
    }
    s
}

fn unhex(s: &str) -> Result<Vec<u8>, String> {
    if s == "-" {
        return Ok(vec![]);
    }
    if s.len() % 2 != 0 {
        return Err("odd hex length".into());
    }
    let b = s.as_bytes();
    let mut out = Vec::with_capacity(s.len() / 2);
    for i in (0..b.len()).step_by(2) {
        let h = (b[i] as char).to_digit(16).ok_or("bad hex")?;
        let l = (b[i + 1] as char).to_digit(16).ok_or("bad hex")?;
        out.push((h * 16 + l) as u8);
    }
    Ok(out)
}

fn err_class(e: &pilota::prost::DecodeError) -> &'static str {
    let s = e.to_string();
    // the description is the tail of the Display text (after the "Msg.field: " location stack)
    for (pat, cls) in [
        ("invalid varint", "varint"),
        ("invalid key value", "key"),
        ("invalid wire type value", "wiretypevalue"),
        ("invalid tag value: 0", "tagzero"),
        ("invalid wire type:", "wiretype"),
        ("buffer underflow", "underflow"),
        ("delimited length exceeded", "delimited"),
        ("unexpected end group tag", "endgroup"),
        ("recursion limit reached", "recursion"),
        ("invalid string value", "utf8"),
        ("length delimiter exceeds", "lenusize"),
    ] {
        if s.contains(pat) {
            return cls;
        }
    }
    "other"
}

/// encodes m in every way the API offers and renders the OK line
fn render_ok<T: Message + Debug>(m: &T, pk: &Peak, quiet: bool) -> String {
    // the peak of decoding alone: re-encoding and rendering below are the driver's own business
    let peak = pk.get();
    let len = m.encoded_len();
    let v = m.encode_to_vec();
    let mut fails: Vec<String> = vec![];
    if v.len() != len {
        fails.push(format!("encoded_len()={} but encode_to_vec wrote {} bytes", len, v.len()));
    }
    let mut bm = BytesMut::with_capacity(len + 16);
    match m.encode(&mut bm) {
        Ok(()) => {
            if bm[..] != v[..] {
                fails.push(format!("Message::encode into BytesMut wrote {} instead of encode_to_vec's bytes", hex(&bm)));
            }
        }
        Err(e) => fails.push(format!("Message::encode into a large enough BytesMut failed: {e}")),
    }
    let ld = m.encode_length_delimited_to_vec();
    let mut pre = Vec::new();
    pilota::prost::encode_length_delimiter(v.len(), &mut pre).unwrap();
    if ld.len() != pre.len() + v.len() || ld[..pre.len()] != pre[..] || ld[pre.len()..] != v[..] {
        fails.push("encode_length_delimited_to_vec != length delimiter ++ encode_to_vec".to_string());
    }
    let mut s = format!("OK L{} E{} P{}", len, hex(&v), peak);
    if !quiet {
        s.push_str(&format!(" D {:?}", m));
    }
    if !fails.is_empty() {
        s.push_str(&format!(" ORACLE-FAIL {}", fails.join("; ")));
    }
    s
}

/// one measurement: live heap bytes before the input exists vs after result and input are gone
fn leak_once<T: Message + Default>(data: &[u8]) -> (&'static str, i64, u8, i64, u8) {
    let before = LIVE.load(Relaxed) as i64;
    let input = Bytes::copy_from_slice(data);
    let keep = input.clone();
    // the input (its buffer and, once cloned, its shared header) is in place: blocks from here on belong to the decode
    let blocks_before = BLOCKS.load(Relaxed) as i64;
    let r = T::decode(input);
    let st = if r.is_ok() { "ok" } else { "err" };
    // while the result is held: what it owns (for an Err: the DecodeError)
    let held = BLOCKS.load(Relaxed) as i64 - blocks_before;
    let hrefs = if data.is_empty() || keep.is_unique() { 0 } else { 1 };
    drop(r);
    // (an empty Bytes is a static: there is no buffer anyone could hold on to)
    let refs = if data.is_empty() || keep.is_unique() { 0 } else { 1 };
    drop(keep);
    let after = LIVE.load(Relaxed) as i64;
    (st, after - before, refs, held, hrefs)
}

fn run_op<T: Message + Default + Debug>(op: &Op) -> String {
    match op {
        Op::Info => format!("SIZE {}", std::mem::size_of::<T>()),
        Op::Leak { data } => {
            // the first decode of a type may initialise process-wide state (hasher seeds, thread locals):
            // a leak repeats, so the second measurement is the one reported
            let _ = leak_once::<T>(data);
            let (st, live, refs, held, hrefs) = leak_once::<T>(data);
            format!("{} LIVE {} REFS {} HELD {} HREFS {}", st, live, refs, held, hrefs)
        }
        Op::Dec { data, quiet } => {
            let input = Bytes::from(data.clone());
            let pk = Peak::start();
            match T::decode(input) {
                Ok(m) => render_ok(&m, &pk, *quiet),
                Err(e) => format!("ERR {} P{}", err_class(&e), pk.get()),
            }
        }
        Op::DecLen { data } => {
            let input = Bytes::from(data.clone());
            let pk = Peak::start();
            match T::decode_length_delimited(input) {
                Ok(m) => render_ok(&m, &pk, true),
                Err(e) => format!("ERR {} P{}", err_class(&e), pk.get()),
            }
        }
        Op::Merge { a, b, quiet } => {
            let ia = Bytes::from(a.clone());
            let ib = Bytes::from(b.clone());
            let pk = Peak::start();
            match T::decode(ia) {
                Err(e) => format!("ERR {} P{}", err_class(&e), pk.get()),
                Ok(mut m) => match Message::merge(&mut m, ib) {
                    Ok(()) => render_ok(&m, &pk, *quiet),
                    Err(e) => format!("ERR {} P{}", err_class(&e), pk.get()),
                },
            }
        }
    }
}

include!(concat!(env!("OUT_DIR"), "/pb_dispatch.rs"));

fn run_line(line: &str) -> Result<String, String> {
    // everything from a ";;" token on is an annotation of the Python side
    let line = match line.find(";;") {
        Some(i) => line[..i].trim_end(),
        None => line,
    };
    let t: Vec<&str> = line.split_ascii_whitespace().collect();
    let idx = |i: usize| -> Result<usize, String> {
        t.get(i).ok_or("missing index")?.parse::<usize>().map_err(|e| e.to_string())
    };
    let bytes_at = |i: usize| -> Result<Vec<u8>, String> { unhex(t.get(i).ok_or("missing hex")?) };
    let (i, op) = match *t.first().ok_or("empty")? {
        "dec" => (idx(1)?, Op::Dec { data: bytes_at(2)?, quiet: false }),
        "decq" => (idx(1)?, Op::Dec { data: bytes_at(2)?, quiet: true }),
        "merge" => (idx(1)?, Op::Merge { a: bytes_at(2)?, b: bytes_at(3)?, quiet: false }),
        "mergeq" => (idx(1)?, Op::Merge { a: bytes_at(2)?, b: bytes_at(3)?, quiet: true }),
        "declen" => (idx(1)?, Op::DecLen { data: bytes_at(2)? }),
        "leak" => (idx(1)?, Op::Leak { data: bytes_at(2)? }),
        "info" => {
            let i = idx(1)?;
            let r = dispatch(i, &Op::Info).ok_or("no such message index")?;
            return Ok(format!("NAME {} {}", MESSAGE_NAMES[i], r));
        }
        "count" => return Ok(format!("N {}", MESSAGE_NAMES.len())),
        "lendelim" => {
            let input = Bytes::from(bytes_at(1)?);
            let pk = Peak::start();
            return Ok(match pilota::prost::decode_length_delimiter(input) {
                Ok(n) => format!("OK L{} P{}", n, pk.get()),
                Err(e) => format!("ERR {} P{}", err_class(&e), pk.get()),
            });
        }
        s => return Err(format!("unknown command {s}")),
    };
    dispatch(i, &op).ok_or_else(|| "no such message index".to_string())
}

fn serve() {
    let stdin = std::io::stdin();
    let stdout = std::io::stdout();
    let mut out = std::io::BufWriter::new(stdout.lock());
    for line in stdin.lock().lines() {
        let line = match line {
            Ok(l) => l,
            Err(_) => break,
        };
        let line = line.trim();
        if line.is_empty() {
            writeln!(out).unwrap();
            continue;
        }
        let r = catch_unwind(AssertUnwindSafe(|| run_line(line)));
        match r {
            Ok(Ok(s)) => writeln!(out, "{s}").unwrap(),
            Ok(Err(e)) => writeln!(out, "BADCASE {e}").unwrap(),
            Err(p) => {
                let msg = if let Some(s) = p.downcast_ref::<&str>() {
                    s.to_string()
                } else if let Some(s) = p.downcast_ref::<String>() {
                    s.clone()
                } else {
                    "?".to_string()
                };
                writeln!(out, "PANIC {}", msg.replace('\n', " ")).unwrap()
            }
        }
        // a later case may abort the process: what has been computed must already be out
        out.flush().unwrap();
    }
    out.flush().unwrap();
}

fn main() {
    std::panic::set_hook(Box::new(|_| {}));
    // decode, Debug rendering and drop recurse once or twice per nesting level; the documented
    // limit is 100 levels, a fixed 256 MiB stack makes the driver independent of `ulimit -s`
    let h = std::thread::Builder::new()
        .name("pv-gen-pb".into())
        .stack_size(256 << 20)
        .spawn(serve)
        .expect("spawn worker");
    let _ = h.join();
}
