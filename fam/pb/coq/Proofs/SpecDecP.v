(* C06, out direction at message level: the two-pass reference decoder of Spec.v (tokenise into records, then
   interpret by the schema -- written from the encoding guide, a different architecture from pilota's streaming
   merge_field) reads back what the schema-directed model of the generated encoder writes.
   Part 1: the reference decoder's own primitives (varints, records, scalar values). *)
From PVPb Require Import Spec Proofs.BitsP Proofs.VarintP Proofs.WireP Proofs.CastP Proofs.CodecP Proofs.SpecP.
From Coq Require Import ZifyN ZifyNat ZifyBool.
Open Scope Z_scope.

(* ------------------------------------------------------------------ varints *)
Lemma spec_read_leb n : forall k acc cnt buf,
  match leb_scan n k acc cnt buf, spec_read_varint n k buf with
  | LDone v r _, Some (v', r') => v = acc + v' /\ r = r'
  | LDone _ _ _, None => False
  | _, Some _ => False
  | _, None => True
  end.
Proof.
  induction n as [|n IH]; intros k acc cnt buf; cbn [leb_scan spec_read_varint]; [exact I|].
  destruct buf as [|b rest]; [exact I|]. destruct (b2z b <? 128); [split; [lia|reflexivity]|].
  specialize (IH (k + 7) (acc + (b2z b - 128) * 2 ^ k) (S cnt) rest).
  destruct (leb_scan n (k + 7) (acc + (b2z b - 128) * 2 ^ k) (S cnt) rest) as [v r c| |],
           (spec_read_varint n (k + 7) rest) as [[v' r']|]; try exact IH; try exact I.
  destruct IH as [-> ->]. split; [lia|reflexivity].
Qed.

Lemma spec_varint_dec_eq l : spec_varint_dec l = varint_spec l.
Proof.
  unfold spec_varint_dec, varint_spec. pose proof (spec_read_leb 10 0 0 0%nat l) as H.
  destruct (leb_scan 10 0 0 0 l) as [v r c| |], (spec_read_varint 10 0 l) as [[v' r']|]; try contradiction; try reflexivity.
  destruct H as [-> ->]. cbn [Z.add]. reflexivity.
Qed.

Lemma spec_varint_dec_rt v r : 0 <= v < two64 -> spec_varint_dec (encode_varint v ++ r) = Some (v, r).
Proof. intros H. rewrite spec_varint_dec_eq. apply varint_spec_encode. exact H. Qed.

(* ------------------------------------------------------------------ one record *)
Lemma spec_split_app (p r : list byte) n : length p = n -> spec_split n (p ++ r) = Some (p, r).
Proof.
  intros <-. unfold spec_split. rewrite app_length.
  replace (Nat.leb (length p) (length p + length r)) with true by (symmetry; apply Nat.leb_le; lia).
  rewrite firstn_app, Nat.sub_diag, firstn_all, firstn_O, app_nil_r.
  rewrite skipn_app, Nat.sub_diag, skipn_all, skipn_O. reflexivity.
Qed.

Definition code_of (wt : wire_type) : Z := wire_type_code wt.

Lemma spec_record_key f tag wt rest : tag_ok tag ->
  spec_record (S f) (encode_key tag wt ++ rest) =
  (let w := wire_type_code wt in
   if w =? 0 then match spec_varint_dec rest with Some (u, r) => Some (tag, PVar u, r) | None => None end
   else if w =? 1 then match spec_split 8 rest with Some (bs, r) => Some (tag, PI64 bs, r) | None => None end
   else if w =? 5 then match spec_split 4 rest with Some (bs, r) => Some (tag, PI32 bs, r) | None => None end
   else if w =? 2 then
     match spec_varint_dec rest with
     | Some (len, r) => if Z.of_nat (length r) <? len then None else
                        match spec_split (Z.to_nat len) r with Some (bs, r') => Some (tag, PLen bs, r') | None => None end
     | None => None
     end
   else spec_record (S f) (encode_key tag wt ++ rest)).
Proof.
  intros Ht. pose proof (key_of_range tag wt Ht) as Hk. pose proof (wire_code_range wt) as Hw. pose proof (tag_ok_range _ Ht) as Hr.
  assert (H3264 : two32 < two64) by (unfold two32, two64; apply Z.pow_lt_mono_r; lia).
  assert (Hk64 : 0 <= key_of tag wt < two64) by lia.
  cbv zeta. destruct (Z.eqb_spec (wire_type_code wt) 0) as [E0|N0];
    [|destruct (Z.eqb_spec (wire_type_code wt) 1) as [E1|N1];
      [|destruct (Z.eqb_spec (wire_type_code wt) 5) as [E5|N5];
        [|destruct (Z.eqb_spec (wire_type_code wt) 2) as [E2|N2]; [|reflexivity]]]];
    cbn [spec_record]; rewrite encode_key_eq by exact Ht;
    rewrite (spec_varint_dec_rt _ _ Hk64);
    unfold two32 in Hk; replace (2 ^ 32 <=? key_of tag wt) with false by lia;
    replace (key_of tag wt / 8) with tag by (unfold key_of; lia);
    replace (tag <? 1) with false by lia;
    replace (key_of tag wt mod 8) with (wire_type_code wt) by (unfold key_of; lia).
  - rewrite E0. reflexivity.
  - rewrite E1. reflexivity.
  - rewrite E5. reflexivity.
  - rewrite E2. reflexivity.
Qed.

Lemma spec_record_varint f tag u rest : tag_ok tag -> 0 <= u < two64 ->
  spec_record (S f) (encode_key tag Varint ++ encode_varint u ++ rest) = Some (tag, PVar u, rest).
Proof.
  intros Ht Hu. rewrite spec_record_key by exact Ht. change (wire_type_code Varint) with 0. cbv zeta.
  change (0 =? 0) with true. cbv iota. rewrite spec_varint_dec_rt by exact Hu. reflexivity.
Qed.

Lemma spec_record_i64 f tag bs rest : tag_ok tag -> length bs = 8%nat ->
  spec_record (S f) (encode_key tag SixtyFourBit ++ bs ++ rest) = Some (tag, PI64 bs, rest).
Proof.
  intros Ht Hl. rewrite spec_record_key by exact Ht. change (wire_type_code SixtyFourBit) with 1. cbv zeta.
  change (1 =? 0) with false. change (1 =? 1) with true. cbv iota. rewrite spec_split_app by exact Hl. reflexivity.
Qed.

Lemma spec_record_i32 f tag bs rest : tag_ok tag -> length bs = 4%nat ->
  spec_record (S f) (encode_key tag ThirtyTwoBit ++ bs ++ rest) = Some (tag, PI32 bs, rest).
Proof.
  intros Ht Hl. rewrite spec_record_key by exact Ht. change (wire_type_code ThirtyTwoBit) with 5. cbv zeta.
  change (5 =? 0) with false. change (5 =? 1) with false. change (5 =? 5) with true. cbv iota. rewrite spec_split_app by exact Hl. reflexivity.
Qed.

Lemma spec_record_len f tag bs rest : tag_ok tag -> zlen bs < two64 ->
  spec_record (S f) (encode_key tag LengthDelimited ++ encode_varint (zlen bs) ++ bs ++ rest) = Some (tag, PLen bs, rest).
Proof.
  intros Ht Hl. pose proof (zlen_nonneg bs). rewrite spec_record_key by exact Ht. change (wire_type_code LengthDelimited) with 2. cbv zeta.
  change (2 =? 0) with false. change (2 =? 1) with false. change (2 =? 5) with false. change (2 =? 2) with true. cbv iota.
  rewrite spec_varint_dec_rt by lia. rewrite app_length.
  replace (Z.of_nat (length bs + length rest) <? zlen bs) with false by (unfold zlen; lia).
  rewrite spec_split_app by (unfold zlen; lia). reflexivity.
Qed.

(* ------------------------------------------------------------------ record sequences *)
Inductive toks : list byte -> list (Z * spayload) -> Prop :=
| toks_nil : toks [] []
| toks_cons R fnum p b more :
    R <> [] -> (forall rest f, spec_record (S f) (R ++ rest) = Some (fnum, p, rest)) ->
    toks b more -> toks (R ++ b) ((fnum, p) :: more).

Lemma toks_app b1 t1 b2 t2 : toks b1 t1 -> toks b2 t2 -> toks (b1 ++ b2) (t1 ++ t2).
Proof.
  intros H1 H2. induction H1 as [|R fnum p b more HR Hrec Ht IH]; [exact H2|].
  rewrite <- app_assoc. cbn [app]. constructor; auto.
Qed.

Lemma toks_one R fnum p : R <> [] -> (forall rest f, spec_record (S f) (R ++ rest) = Some (fnum, p, rest)) -> toks R [(fnum, p)].
Proof. intros HR H. rewrite <- (app_nil_r R). constructor; auto. constructor. Qed.

Lemma toks_length b ts : toks b ts -> (length ts <= length b)%nat.
Proof.
  induction 1 as [|R fnum p b more HR Hrec Ht IH]; [cbn; lia|]. rewrite app_length. cbn [length].
  destruct R; [congruence|cbn [length]; lia].
Qed.

Lemma toks_records b ts : toks b ts -> forall f, (length ts <= f)%nat -> spec_records f b = Some ts.
Proof.
  induction 1 as [|R fnum p b more HR Hrec Ht IH]; intros f Hf.
  - destruct f; reflexivity.
  - destruct f as [|f]; [cbn in Hf; lia|]. cbn [spec_records].
    destruct (R ++ b) as [|x l] eqn:E; [apply app_eq_nil in E; destruct E; congruence|]. rewrite <- E.
    rewrite Hrec. rewrite (IH f) by (cbn [length] in Hf; lia). reflexivity.
Qed.

Lemma toks_records_all b ts : toks b ts -> spec_records (S (length b)) b = Some ts.
Proof. intros H. apply toks_records; [exact H|]. pose proof (toks_length b ts H). lia. Qed.

(* ------------------------------------------------------------------ scalar values *)
(* the record payload a conforming encoder produces for a value of a declared scalar type *)
Definition stok (t : proto_type) (v : val) : spayload :=
  match t, v with
  | (TYPE_INT32 | TYPE_INT64 | TYPE_ENUM), VI z => PVar (if z <? 0 then z + 2 ^ 64 else z)
  | (TYPE_UINT32 | TYPE_UINT64 | TYPE_BOOL), VI z => PVar z
  | (TYPE_SINT32 | TYPE_SINT64), VI z => PVar (spec_zigzag z)
  | (TYPE_FIXED32 | TYPE_FLOAT), VI z => PI32 (spec_le 4 z)
  | TYPE_SFIXED32, VI z => PI32 (spec_le 4 (if z <? 0 then z + 2 ^ 32 else z))
  | (TYPE_FIXED64 | TYPE_DOUBLE), VI z => PI64 (spec_le 8 z)
  | TYPE_SFIXED64, VI z => PI64 (spec_le 8 (if z <? 0 then z + 2 ^ 64 else z))
  | (TYPE_STRING | TYPE_BYTES), VB l => PLen l
  | _, _ => PGroup
  end.

Lemma spec_unzigzag_zigzag z : spec_unzigzag (spec_zigzag z) = z.
Proof.
  unfold spec_unzigzag, spec_zigzag. destruct (Z.ltb_spec z 0).
  - destruct (Z.even (- 2 * z - 1)) eqn:E.
    + apply Z.even_spec in E. destruct E as [m Hm]. lia.
    + lia.
  - destruct (Z.even (2 * z)) eqn:E.
    + lia.
    + assert (Ho : Z.odd (2 * z) = true) by (rewrite <- Z.negb_even, E; reflexivity).
      apply Z.odd_spec in Ho. destruct Ho as [m Hm]. lia.
Qed.

Lemma spec_of_le_eq l : spec_of_le l = of_le l.
Proof. induction l as [|b l IH]; [reflexivity|]. cbn [spec_of_le fold_right of_le]. fold (spec_of_le l). rewrite IH. reflexivity. Qed.

Lemma spec_of_le_le n z : 0 <= z < 256 ^ Z.of_nat n -> spec_of_le (spec_le n z) = z.
Proof. intros H. rewrite spec_of_le_eq, spec_le_eq. apply of_le_le_bytes. exact H. Qed.

Lemma spec_le_length n z : length (spec_le n z) = n.
Proof. rewrite spec_le_eq. apply le_bytes_length. Qed.

Ltac pw := change (2 ^ 31) with 2147483648 in *; change (2 ^ 32) with 4294967296 in *;
           change (2 ^ 63) with 9223372036854775808 in *; change (2 ^ 64) with 18446744073709551616 in *;
           change (2 ^ (32 - 1)) with 2147483648 in *; change (2 ^ (64 - 1)) with 9223372036854775808 in *.

Theorem spec_scalar_value_rt t v : spec_value_ok t v = true -> spec_scalar_value t (stok t v) = Some v.
Proof.
  intros Hv.
  assert (Hstr : t = TYPE_STRING -> spec_scalar_value t (stok t v) = Some v).
  { intros ->. destruct v as [z|l|k l]; try discriminate Hv. cbn [spec_value_ok stok spec_scalar_value] in *.
    apply andb_prop in Hv. destruct Hv as [_ Hu]. rewrite Hu. reflexivity. }
  destruct t; try (apply Hstr; reflexivity); clear Hstr;
    destruct v as [z|l|k l]; try discriminate Hv; cbn [spec_value_ok stok spec_scalar_value] in *;
    try reflexivity; f_equal; f_equal; unfold spec_signed; pw.
  - (* double *) apply spec_of_le_le. change (256 ^ Z.of_nat 8) with 18446744073709551616. lia.
  - (* float *) apply spec_of_le_le. change (256 ^ Z.of_nat 4) with 4294967296. lia.
  - (* int64 *) destruct (Z.ltb_spec z 0); match goal with |- context [?a <? ?b] => destruct (Z.ltb_spec a b) end; lia.
  - (* int32 *) destruct (Z.ltb_spec z 0); match goal with |- context [?a <? ?b] => destruct (Z.ltb_spec a b) end; lia.
  - (* fixed64 *) apply spec_of_le_le. change (256 ^ Z.of_nat 8) with 18446744073709551616. lia.
  - (* fixed32 *) apply spec_of_le_le. change (256 ^ Z.of_nat 4) with 4294967296. lia.
  - (* bool *) destruct (Z.eqb_spec z 0); lia.
  - (* uint32 *) lia.
  - (* enum *) destruct (Z.ltb_spec z 0); match goal with |- context [?a <? ?b] => destruct (Z.ltb_spec a b) end; lia.
  - (* sfixed32 *) rewrite spec_of_le_le by (change (256 ^ Z.of_nat 4) with 4294967296; destruct (Z.ltb_spec z 0); lia).
    destruct (Z.ltb_spec z 0); match goal with |- context [?a <? ?b] => destruct (Z.ltb_spec a b) end; lia.
  - (* sfixed64 *) rewrite spec_of_le_le by (change (256 ^ Z.of_nat 8) with 18446744073709551616; destruct (Z.ltb_spec z 0); lia).
    destruct (Z.ltb_spec z 0); match goal with |- context [?a <? ?b] => destruct (Z.ltb_spec a b) end; lia.
  - (* sint32 *) rewrite Z.mod_small by (unfold spec_zigzag; destruct (Z.ltb_spec z 0); lia). apply spec_unzigzag_zigzag.
  - (* sint64 *) apply spec_unzigzag_zigzag.
Qed.

Lemma scalar_module_declared p m : scalar_module p = Some m -> In p declared_scalars.
Proof. destruct p; vm_compute; intros H; try discriminate H; tauto. Qed.

(* the value ranges agree, the other way round *)
Lemma mod_value_ok_spec p m v : scalar_module p = Some m -> mod_value_okb m v = true -> spec_value_ok p v = true.
Proof.
  intros Hm Hv. destruct p; vm_compute in Hm; try discriminate Hm; inversion Hm; subst m; clear Hm;
    destruct v as [z|l|k l]; try discriminate Hv; cbn [spec_value_ok mod_value_okb] in *.
  all: unfold in_sb, zlen, two32, two64 in *.
  all: pw.
  all: first [assumption | timeout 20 lia].
Qed.

(* one record written by a conforming encoder, read by the reference tokeniser *)
Lemma srec_varint f tag u rest : tag_ok tag -> 0 <= u < two64 ->
  spec_record (S f) (spec_key tag W_VARINT ++ spec_varint u ++ rest) = Some (tag, PVar u, rest).
Proof.
  intros Ht Hu. rewrite (spec_key_eq tag W_VARINT Varint Ht eq_refl). rewrite spec_varint_eq by lia.
  apply spec_record_varint; assumption.
Qed.

Lemma srec_i64 f tag z rest : tag_ok tag ->
  spec_record (S f) (spec_key tag W_I64 ++ spec_le 8 z ++ rest) = Some (tag, PI64 (spec_le 8 z), rest).
Proof. intros Ht. rewrite (spec_key_eq tag W_I64 SixtyFourBit Ht eq_refl). apply spec_record_i64; [exact Ht|apply spec_le_length]. Qed.

Lemma srec_i32 f tag z rest : tag_ok tag ->
  spec_record (S f) (spec_key tag W_I32 ++ spec_le 4 z ++ rest) = Some (tag, PI32 (spec_le 4 z), rest).
Proof. intros Ht. rewrite (spec_key_eq tag W_I32 ThirtyTwoBit Ht eq_refl). apply spec_record_i32; [exact Ht|apply spec_le_length]. Qed.

Lemma srec_len f tag l rest : tag_ok tag -> Z.of_nat (length l) < 2 ^ 64 ->
  spec_record (S f) (spec_key tag W_LEN ++ (spec_varint (Z.of_nat (length l)) ++ l) ++ rest) = Some (tag, PLen l, rest).
Proof.
  intros Ht Hl. rewrite (spec_key_eq tag W_LEN LengthDelimited Ht eq_refl). rewrite spec_varint_eq by lia.
  rewrite <- app_assoc. apply (spec_record_len f tag l rest Ht). exact Hl.
Qed.

Lemma two64_val : two64 = 18446744073709551616.
Proof. reflexivity. Qed.

Theorem spec_record_spec f p tag v rest : tag_ok tag -> spec_value_ok p v = true ->
  spec_record (S f) (spec_encode_field p tag v ++ rest) = Some (tag, stok p v, rest).
Proof.
  intros Ht Hv. unfold spec_encode_field. rewrite <- app_assoc.
  destruct p; destruct v as [z|l|k l]; try discriminate Hv; cbn [spec_value_ok spec_wire_type spec_payload stok] in *.
  - apply srec_i64; exact Ht.
  - apply srec_i32; exact Ht.
  - apply srec_varint; [exact Ht|]. rewrite two64_val. pw. destruct (Z.ltb_spec z 0); lia.
  - apply srec_varint; [exact Ht|]. rewrite two64_val. pw. lia.
  - apply srec_varint; [exact Ht|]. rewrite two64_val. pw. destruct (Z.ltb_spec z 0); lia.
  - apply srec_i64; exact Ht.
  - apply srec_i32; exact Ht.
  - apply srec_varint; [exact Ht|]. rewrite two64_val. lia.
  - apply srec_len; [exact Ht|lia].
  - apply srec_len; [exact Ht|lia].
  - apply srec_varint; [exact Ht|]. rewrite two64_val. pw. lia.
  - apply srec_varint; [exact Ht|]. rewrite two64_val. pw. destruct (Z.ltb_spec z 0); lia.
  - apply srec_i32; exact Ht.
  - apply srec_i64; exact Ht.
  - apply srec_varint; [exact Ht|]. rewrite two64_val. pw. unfold spec_zigzag. destruct (Z.ltb_spec z 0); lia.
  - apply srec_varint; [exact Ht|]. rewrite two64_val. pw. unfold spec_zigzag. destruct (Z.ltb_spec z 0); lia.
Qed.

(* ... and the same for what pilota's codec writes (the bytes are the spec's bytes: C06_scalar_out) *)
Theorem spec_record_scalar f p m tag v rest : scalar_module p = Some m -> tag_ok tag -> spec_value_ok p v = true ->
  spec_record (S f) (encode_scalar m tag v ++ rest) = Some (tag, stok p v, rest).
Proof.
  intros Hm Ht Hv. rewrite (spec_scalar_bytes p m tag v (scalar_module_declared p m Hm) Hm Ht Hv).
  apply spec_record_spec; assumption.
Qed.
