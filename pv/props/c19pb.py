"""C19, protobuf half -- a failed decode releases everything it allocated (generated protobuf decoders).

Entry point: run(chk, replay=None)  (a part for Check.run_parts: `("pb", c19pb.run)`; replays carry part="pb").

Implementation oracle: the generated-message driver's `leak <msg> <hex>` operation (fam/pb/harness, pv-gen-pb) decodes
through `Message::decode(Bytes)` -- the zero-copy path: FastStr / Bytes fields are slices of the input -- under a
counting global allocator, keeps a second handle to the input, drops the result (value or error), and reports
  ok|err LIVE <live heap bytes after dropping result AND input, minus before the input existed> REFS <0|1>
(REFS 1 = the kept handle is not unique after the drop: something still references the input buffer).  Whenever
decoding fails -- and also when it succeeds -- LIVE must be 0 and REFS must be 0.  The same line carries
  HELD <live heap blocks while the result is still held> HREFS <0|1: the held result references the input buffer>.

Model correspondence: the extracted ownership model (fam/pb/coq/Own.v, runner op `own`) runs on the same inputs and predicts
the outcome and the ledger (live heap blocks, live handles on the input) at the moment decode has returned: empty after a
failure (C19_pb_no_leak), what the value holds after a success.  Compared per case:
  outcome                     ok / err must agree
  failure                     the model's ledger is H0 R0 (theorem) and the measurement is LIVE 0 REFS 0
  success                     HREFS = 1 exactly when the model's ledger has R + T > 0 (R: a non-empty Bytes field or a FastStr beyond
                              the inline capacity somewhere in the value; T: an empty bytes field cut at the very end of the
                              input -- Bytes::split_to returns the whole handle there); H <= HELD <= H + B where B (printed by the runner)
                              counts the places of the value where the generated struct may hold a Box (the model does not
                              count boxes: the schema does not say which fields pilota-build boxed)
(the Vec<u8> wrapper impl shares the codec module of Bytes in the model: its predicted handle is a heap block).  A
disagreement on an input where the implementation itself is clean is a broken correspondence (VIOLATION with the input).

Inputs: for every message type of the .proto corpus (and the wrapper impls of types.rs): reference encodings of generated
values (covering values, random values, and for every repeated-message field / map with message values / oneof message
member a value whose elements carry long strings, bytes, repeated and nested members), cut at every (quick: sampled)
truncation point and corrupted by single-byte replacements at every (quick: sampled; forced cases: every) offset,
bytes inside nested elements included.

Proof level: fam/pb/coq/Properties/C19.v -- C19_pb_inventory (the regenerated inventory of unsafe / set_len / mem::forget
/ ManuallyDrop / from_raw_parts / into_raw / Box::leak sites of pilota/src/prost/{encoding,message,types}.rs and of the
protobuf templates of pilota-build is exactly the accounted list: there is no raw-pointer decode template) and
C19_pb_guard (the one ownership-relevant site, the drop guard of string::merge: the String is empty or valid UTF-8 on
every exit)."""
import os, random, re
from .. import core, pbgen

LEAK_RE = re.compile(r"^(ok|err) LIVE (-?\d+) REFS (\d)(?: HELD (-?\d+) HREFS (\d))?$")
OWN_RE = re.compile(r"^(ok|err|panic) H(-?\d+) R(-?\d+) T(-?\d+)(?: B(\d+))?")
MODEL_MAX_HEX = 1600          # the extracted model is quadratic in the input length: longer inputs go to it 1 in 8 times


def inline_cap_check():
    """FastStr's inline capacity is a constant of an external crate that own_scalar (Own.v) uses: re-read it from the
    source of the faststr version pinned for the harness.  -> (ok, text)"""
    import glob
    fam = core.Family("pb")
    try:
        own = open(os.path.join(fam.coq, "Own.v"), encoding="utf-8").read()
        mine = int(re.search(r"Definition faststr_inline_cap : Z := (\d+)\.", own).group(1))
        lock = open(os.path.join(fam.harness_dir, "Cargo.lock"), encoding="utf-8").read()
        ver = re.search(r'name = "faststr"\nversion = "([^"]+)"', lock).group(1)
    except Exception as e:
        return False, "cannot determine faststr version / model constant: %r" % (e,)
    srcs = glob.glob(os.path.expanduser("~/.cargo/registry/src/*/faststr-%s/src/lib.rs" % ver))
    if not srcs:
        return True, "faststr %s source not in the cargo registry: INLINE_CAP not re-read (model: %d)" % (ver, mine)
    m = re.search(r"const INLINE_CAP: usize = (\d+);", open(srcs[0], encoding="utf-8").read())
    if not m:
        return False, "faststr %s: `const INLINE_CAP` not found" % ver
    if int(m.group(1)) != mine:
        return False, "faststr %s INLINE_CAP = %s, Own.v faststr_inline_cap = %d" % (ver, m.group(1), mine)
    return True, "faststr %s INLINE_CAP = %d (= Own.v)" % (ver, mine)


def compare_own(msg, impl, model):
    """None, or what differs between the measurement (LEAK_RE match) and the model's prediction (runner line)"""
    mo = OWN_RE.match(model or "")
    if not mo:
        return "the model runner did not answer: %s" % (model or "")[:120]
    st, h, r, tl = mo.group(1), int(mo.group(2)), int(mo.group(3)), int(mo.group(4))
    if st == "panic":
        return "the model predicts a panic, the implementation returned"
    if st != impl.group(1):
        return "outcome: implementation %s, model %s" % (impl.group(1), st)
    if st == "err":
        if h != 0 or r != 0 or tl != 0:
            return "the model's ledger after a failed decode is not empty (H%d R%d T%d)" % (h, r, tl)
        return None
    if impl.group(4) is None:
        return None
    held, hrefs = int(impl.group(4)), int(impl.group(5))
    b = int(mo.group(5) or 0)
    if not 0 <= tl <= 1:
        return "the model's ledger has %d tail handles" % tl
    if msg.wrapper == "Vec<u8>":
        h, r, tl = h + r, 0, 0        # replace_with copies into the Vec and drops the handle
    if (r + tl > 0) != (hrefs == 1):
        return "the value %s the input buffer, the model's ledger has %d handle(s) (+ %d of an empty tail slice)" % (
            "references" if hrefs else "does not reference", r, tl)
    if not (h <= held <= h + b):
        return "%d heap block(s) held by the value, the model predicts %d (+ at most %d boxes)" % (held, h, b)
    return None
LONG = [b"L" * 40, b"long string value beyond the inline capacity of FastStr \xc3\xa9\xe2\x82\xac", bytes(range(65, 65 + 58)), b"m" * 33, b"z" * 200]


def _fat_scalar(ty, x, rng):
    if ty in ("string", "bytes") and rng.random() < 0.7:
        return rng.choice(LONG)
    return x


def fatten(msg, v, rng, depth=0):
    """the value with most strings / bytes replaced by ones too long to be stored inline (so that they are slices of the
    input on the zero-copy path) -- at every level"""
    out = []
    for sl, x in zip(msg.slots, v):
        def el(s, y):
            if s.ty == "message":
                return fatten(s.ref, y, rng, depth + 1)
            return _fat_scalar(s.ty, y, rng)
        if sl.kind in ("s", "w"):
            out.append(el(sl, x))
        elif sl.kind == "o":
            out.append(None if x is None else el(sl, x))
        elif sl.kind == "r":
            out.append([el(sl, y) for y in x])
        elif sl.kind == "m":
            out.append([(k, el(sl, y)) for k, y in x])
        elif sl.kind == "u":
            out.append(None if x is None else (x[0], el(sl.members[x[0]], x[1])))
        else:
            out.append(x)
    return out


def forced_values(msg, rng):
    """one value per repeated-message field, map with message values and oneof message member of msg: that slot holds
    elements with heap-owning members, the rest of the value is random"""
    vals = []
    for si, sl in enumerate(msg.slots):
        def elem(ref):
            return fatten(ref, pbgen.gen_value(ref, rng, rng.choice([1, 2]), 0.6), rng)
        if sl.kind == "r" and sl.ty == "message":
            v = pbgen.gen_value(msg, rng, 1, 0.5)
            v[si] = [elem(sl.ref) for _ in range(rng.choice([2, 3]))]
            vals.append(("repeated-message", fatten(msg, v, rng)))
        elif sl.kind == "m" and sl.ty == "message":
            v = pbgen.gen_value(msg, rng, 1, 0.5)
            keys = []
            while len(keys) < 2:
                k = pbgen.gen_scalar(sl.kty, rng)
                if sl.kty == "string":
                    k = rng.choice(LONG[:1] + LONG[3:]) + b"%d" % len(keys)      # too long to be stored inline
                if k not in keys:
                    keys.append(k)
            v[si] = sorted([(k, elem(sl.ref)) for k in keys], key=lambda kv: pbgen._key_sort(kv[0]))
            vals.append(("map-message-value", v))
        elif sl.kind == "u":
            for mi, mem in enumerate(sl.members):
                if mem.ty == "message":
                    v = pbgen.gen_value(msg, rng, 1, 0.5)
                    v[si] = (mi, elem(mem.ref))
                    vals.append(("oneof-message-member", v))
    return vals


def mutations(e, rng, tier, all_offsets):
    """(kind, bytes): truncations and single-byte replacements of the encoding e"""
    n = len(e)
    out = []
    if tier != "quick" or n <= 24:
        cuts = range(n)
    else:
        cuts = sorted(set([0, 1, n - 1, n - 2] + [rng.randrange(n) for _ in range(20)]))
    for i in cuts:
        if 0 <= i < n:
            out.append(("truncate", e[:i]))
    if tier != "quick" or all_offsets or n <= 40:
        offs = range(n)
    else:
        offs = sorted(set(rng.randrange(n) for _ in range(40)))
    for i in offs:
        b = e[i]
        # 0x00 at a key position: "invalid tag value: 0"; 0x07: invalid wire type; 0xff: a varint that runs on /
        # an oversized length; flipping the top bit changes the extent of a varint
        repl = [0x00, 0x07, 0xff, b ^ 0x80]
        if tier == "quick":
            repl = rng.sample(repl, 2)
        for r in repl:
            if r != b:
                out.append(("corrupt", e[:i] + bytes([r]) + e[i + 1:]))
    return out


def gen_cases(corpus, rng, tier):
    cases, kinds = [], {}
    skipped = [0]
    def add(m, kind, sub, data):
        cases.append(pbgen.ann("leak %d %s" % (m.idx, pbgen.hx(data)), k=kind, v=sub))
        kinds[kind + ":" + sub] = kinds.get(kind + ":" + sub, 0) + 1
    nrand = 3 if tier == "quick" else 10
    for m in corpus:
        vals = [("cover", v) for v in pbgen.gen_cover(m, rng)[:4 if tier == "quick" else 16]]
        for _ in range(nrand):
            v = pbgen.gen_value(m, rng, rng.choice([1, 2, 3]), 0.7)
            vals.append(("random", fatten(m, v, rng)))
        if m.wrapper is None:
            reps = 1 if tier == "quick" else 3
            for _ in range(reps):
                vals += forced_values(m, rng)
        for sub, v in vals:
            e = pbgen.ref_encode(m, v, rng, rng.choice([pbgen.CANONICAL, pbgen.PILOTA_LIKE]))
            if len(e) > (3000 if tier == "quick" else 4000):
                skipped[0] += 1
                continue
            add(m, "valid", sub, e)
            forced = sub in ("repeated-message", "map-message-value", "oneof-message-member")
            for kind, data in mutations(e, rng, tier, all_offsets=forced and len(e) <= 1200):
                add(m, kind, sub, data)
    kinds["skipped-too-long"] = skipped[0]
    return cases, kinds


RULE = ("generated protobuf decoders (real pilota-build output for the .proto corpus, plus the wrapper impls of types.rs), "
        "driver op `leak`: Message::decode(Bytes) on the zero-copy path under a counting allocator, result and input dropped, a "
        "second handle to the input checked for uniqueness. Inputs per message type: reference encodings of covering values, "
        "random values with long strings / bytes at every level, and for every repeated-message field, map with message values and "
        "oneof message member a forced value whose elements own heap memory and input slices; each encoding as is, cut at every "
        "(quick: sampled <= 24) truncation point, and with single-byte replacements (0x00 tag zero, 0x07 invalid wire type, 0xff "
        "run-on varint, top bit flipped; quick: 2 of the 4) at every offset of the forced cases and at sampled (quick: <= 40; "
        "thorough: all) offsets of the others, bytes inside nested elements included. Oracle on the implementation alone: the "
        "answer is `ok|err LIVE 0 REFS 0 HELD b HREFS h`; LIVE != 0 or REFS != 0 is a leak, PANIC / CRASH means the measurement "
        "could not be made. Model correspondence: the extracted ownership model (Own.v, runner op `own`) on the same inputs "
        "(inputs beyond 1600 hex digits: 1 in 8): same outcome; empty ledger after a failure; after a success HREFS = 1 iff the "
        "predicted ledger holds a handle on the input, and predicted blocks <= HELD <= predicted + possible boxes. "
        "non-trivial = decoding failed; distinct by SHA-1 of the case line")


def run(chk, replay=None):
    fam = core.Family("pb")
    gate, hb = core.std_setup(chk, need_runner=True, fam=fam)
    chk.cov["rule"] = RULE
    chk.cov["checker_cmd"] = ("make -C fam/pb/coq Properties/C19.vo && coqc -Q coq PV -Q fam/pb/coq PVPb Properties/C19.v "
                              "(Print Assumptions allowlist, forbidden-vernacular grep)")
    rng = random.Random(chk.seed)
    failing = []
    dist = {}
    if hb:
        gbin = os.path.join(os.path.dirname(hb), "pv-gen-pb")
        stale = pbgen.schemas_stale()
        if stale:
            chk.violation("corpus schema JSON out of date: %s" % stale, dict(kind="corpus", part="pb", stale=str(stale)), no_input=True)
        corpus = pbgen.load_corpus()
        if replay is not None:
            cases, kinds = [replay["case"]], {}
        else:
            cases, kinds = gen_cases(corpus, rng, chk.tier)
        outs = []
        for i in range(0, len(cases), 50000):        # batches: the line runner's stall detection is per process
            outs += pbgen.run_driver(gbin, cases[i:i + 50000])
        # ---- the ownership model's predictions (extracted Own.own_decode through the runner, op `own`)
        sel, nlong = [], 0
        for i, c in enumerate(cases):
            ln = pbgen.strip_ann(c)
            if len(ln) > MODEL_MAX_HEX:
                nlong += 1
                if nlong % 8:
                    continue
            sel.append(i)
        mouts = {}
        if os.path.exists(fam.runner):
            schema = pbgen.write_model_schema(corpus)
            lines = ["own " + pbgen.strip_ann(cases[i]).split(" ", 1)[1] for i in sel]
            for i, mo in zip(sel, core.run_lines(fam.runner, lines, args=["--schema", schema])):
                mouts[i] = mo
        mism, mtags = [], {"compared": 0, "ok-held-compared": 0, "skipped-long": len(cases) - len(sel)}
        okc, txt = inline_cap_check()
        chk.notes.append(txt)
        if not okc:
            chk.violation("C19 pb: " + txt, dict(kind="corpus", part="pb", what="faststr INLINE_CAP"), no_input=True)
        outcomes = {"ok": 0, "err": 0, "other": 0}
        per_msg_err = {}
        for ci, (c, o) in enumerate(zip(cases, outs)):
            mm = LEAK_RE.match(o or "")
            if not mm:
                outcomes["other"] += 1
                chk.count(c, True)
                failing.append((c, "the decoder did not return (no measurement): " + (o or "")[:160], o))
                continue
            st, live, refs = mm.group(1), int(mm.group(2)), int(mm.group(3))
            outcomes[st] += 1
            chk.count(c, st == "err")
            if st == "err":
                idx = int(c.split()[1])
                per_msg_err[idx] = per_msg_err.get(idx, 0) + 1
            if live != 0 or refs != 0:
                what = []
                if live != 0:
                    what.append("%d bytes of heap stay live" % live)
                if refs != 0:
                    what.append("a reference to the input buffer survives")
                failing.append((c, "after a %s decode of %s and dropping the result: %s" % (
                    "failed" if st == "err" else "successful", corpus[int(c.split()[1])].name, " and ".join(what)), o))
            elif ci in mouts:
                mtags["compared"] += 1
                if st == "ok" and mm.group(4) is not None:
                    mtags["ok-held-compared"] += 1
                d = compare_own(corpus[int(c.split()[1])], mm, mouts[ci])
                if d:
                    mism.append((c, o, mouts[ci], d))
        for c in (cases[:1] + cases[len(cases) // 2:len(cases) // 2 + 1] + cases[-1:]):
            chk.sample(c[:300])
        dist = dict(kinds=kinds, outcomes=outcomes, driver_lines=len(cases), messages=len(corpus),
                    messages_with_failing_decodes=len(per_msg_err),
                    repeated_message_fields=sum(1 for m in corpus for s in m.slots if s.kind == "r" and s.ty == "message"),
                    maps_with_message_values=sum(1 for m in corpus for s in m.slots if s.kind == "m" and s.ty == "message"),
                    oneof_message_members=sum(1 for m in corpus for s in m.slots if s.kind == "u" for x in s.members if x.ty == "message"))
        chk.cov["disagreements_checked"] = len(cases)
    chk.cov.setdefault("distribution", {}).update(dist)
    chk.cov["model_impl_mismatches"] = len(mism) if hb else 0
    if hb:
        chk.cov.setdefault("distribution", {})["ownership_model"] = mtags
        for c, o, mo, d in mism[:3]:
            chk.violation("correspondence pb-ownership broken: the ownership model (fam/pb/coq/Own.v, runner op `own`) and the "
                          "measurement disagree: " + d,
                          dict(kind="correspondence", correspondence="pb-ownership", part="pb", case=c, impl_output=(o or "")[:300],
                               model_output=(mo or "")[:300]))
    for c, why, o in failing[:3]:
        chk.violation("C19 fails on the implementation (protobuf): " + why,
                      dict(kind="case", level="gen", part="pb", case=c, impl_output=(o or "")[:500]))
    if len(failing) > 3:
        chk.notes.append("%d further leaking inputs not written out" % (len(failing) - 3))
    if not failing and gate is not None and not gate["ok"]:
        chk.violation("proof obligation broken: %s (%s)" % (gate.get("failed"), (gate.get("error") or "")[:300]),
                      dict(kind="proof", part="pb", theorem_file="fam/pb/coq/Properties/C19.v", failed=gate.get("failed"),
                           error=gate.get("error"), theorems=gate["theorems"]), no_input=True)
    return chk.finish()
