(* Hand-written glue (trusted): one case line in, one result line out, around the extracted bld models.

   disp <ident>                         Names.display
   tok <token>                          Names.ident_token_ok  -> 1 | 0
   emit <cc:0|1> <kind>:<orig>:<conv>:<tag|-> ...   emitted names of one scope (conv given as a table), comma separated
   rel <a,b|-> <x,y|->                  Paths.related_path    -> a::b | panic
   wrel <a,b> <x,y>                     Paths.wrelated_path
   res <cur a,b|-> <rel a,b>            Paths.resolve_item    -> mod,path|item  or  none
   box <id>=M:<f>,<f>..;<id>=E:<f>,<f>/<f>;<id>=N:<f>;<id>=O   (f = p<id> | o)   BoxCycle.box_decisions -> owner.index=0|1 ...
   ucyc <graph>                         BoxCycle.union_cycle_b -> 1 | 0
   layout <split:0|1> <extra paths a,b;c|-> <items modpath|prefix|name|emitted; ...>   Pipeline.layout_pred
   uniq <existing a,b|-> <simple>       Pipeline.generate_unique_name
   layoutd <split:0|1> <extra|-> <dedup names a,b|-> <items modpath|prefix|name|emitted|key; ...>   Dedup.layout_pred_dedup
   collect <roots a,b|-> <consts a,b|-> <id:succ,succ;id:;...>   Collect.collect_items (fuel = number of ids + 1) -> insertion history a,b,c
   helpers <Service> <name:camel:tag|-:throws 0|1> ...   Effective: per function  helper names '|' exception path  (camel given as a table)
   derive <po|heo> <order a,b|-> <id>=M:<ty>,<ty>;<id>=E:<ty>,<ty>/<ty>;<id>=N:<ty>;<id>=S|C|O
          ty = TyKind names in prefix form joined by '.', a path is P<id>:  Map.I32.Vec.P7
          Derive.decisions + the model's verdict  -> <id>=Y|N|D ... | closed=0|1 wsc=0|1 cons=0|1   or PANIC / FUEL *)

let ascii_of_char (c : char) : Model.ascii =
  let n = Char.code c in
  let b i = (n lsr i) land 1 = 1 in
  Model.Ascii (b 0, b 1, b 2, b 3, b 4, b 5, b 6, b 7)

let char_of_ascii (a : Model.ascii) : char =
  match a with
  | Model.Ascii (b0, b1, b2, b3, b4, b5, b6, b7) ->
    let v b i = if b then 1 lsl i else 0 in
    Char.chr (v b0 0 + v b1 1 + v b2 2 + v b3 3 + v b4 4 + v b5 5 + v b6 6 + v b7 7)

let cs (s : string) : Model.string =
  let r = ref Model.EmptyString in
  for i = String.length s - 1 downto 0 do
    r := Model.String (ascii_of_char s.[i], !r)
  done;
  !r

let os (s : Model.string) : string =
  let b = Buffer.create 16 in
  let rec go = function
    | Model.EmptyString -> ()
    | Model.String (a, r) -> Buffer.add_char b (char_of_ascii a); go r in
  go s; Buffer.contents b

let rec nat_of_int (i : int) : Model.nat = if i <= 0 then Model.O else Model.S (nat_of_int (i - 1))
let rec int_of_nat (n : Model.nat) : int = match n with Model.O -> 0 | Model.S m -> 1 + int_of_nat m

let () =
  (* self-test of the string glue against the extracted functions *)
  if os (Model.display (cs "type")) <> "r#type" || os (Model.display (cs "self")) <> "self_"
     || os (Model.display (cs "a_B9")) <> "a_B9" then failwith "string representation self-test failed"

let split_on c s = if s = "" then [] else String.split_on_char c s
let path_of s = if s = "-" then [] else List.map cs (split_on ',' s)
let path_to l = if l = [] then "-" else String.concat "," (List.map os l)

let kind_of = function
  | "struct" -> Model.KStruct | "enum" -> Model.KEnum | "service" -> Model.KService
  | "newtype" -> Model.KNewType | "const" -> Model.KConst | "mod" -> Model.KMod
  | "variant" -> Model.KVariant | "constvariant" -> Model.KConstVariant | "field" -> Model.KField
  | "method" -> Model.KMethod | "arg" -> Model.KArg
  | k -> failwith ("bad kind " ^ k)

let fty_of s =
  if s = "o" then Model.TOther
  else if String.length s > 1 && s.[0] = 'p' then Model.TPath (nat_of_int (int_of_string (String.sub s 1 (String.length s - 1))))
  else failwith ("bad field type " ^ s)

let base_of = function
  | "String" -> Some Model.BString | "FastStr" -> Some Model.BFastStr | "Void" -> Some Model.BVoid | "U8" -> Some Model.BU8
  | "Bool" -> Some Model.BBool | "BytesVec" -> Some Model.BBytesVec | "Bytes" -> Some Model.BBytes | "I8" -> Some Model.BI8
  | "I16" -> Some Model.BI16 | "I32" -> Some Model.BI32 | "I64" -> Some Model.BI64 | "UInt32" -> Some Model.BUInt32
  | "UInt64" -> Some Model.BUInt64 | "F32" -> Some Model.BF32 | "F64" -> Some Model.BF64 | "OrderedF64" -> Some Model.BOrderedF64
  | "Uuid" -> Some Model.BUuid | _ -> None

(* prefix form: returns the type and the remaining tokens *)
let rec dty_of (toks : string list) : Model.dty * string list =
  match toks with
  | [] -> failwith "bad type: empty"
  | t :: r ->
    (match base_of t with
     | Some b -> (Model.DBase b, r)
     | None ->
       if String.length t > 1 && t.[0] = 'P' && (match t.[1] with '0' .. '9' -> true | _ -> false)
       then (Model.DPath (nat_of_int (int_of_string (String.sub t 1 (String.length t - 1)))), r)
       else
         let one mk = let (a, r1) = dty_of r in (mk a, r1) in
         let two mk = let (a, r1) = dty_of r in let (b, r2) = dty_of r1 in (mk a b, r2) in
         (match t with
          | "Vec" -> one (fun a -> Model.DVec a)
          | "Set" -> one (fun a -> Model.DSet a)
          | "BTreeSet" -> one (fun a -> Model.DBTreeSet a)
          | "Arc" -> one (fun a -> Model.DArc a)
          | "Map" -> two (fun a b -> Model.DMap (a, b))
          | "BTreeMap" -> two (fun a b -> Model.DBTreeMap (a, b))
          | _ -> failwith ("bad type kind " ^ t)))

let dty_of_string (s : string) : Model.dty =
  match dty_of (String.split_on_char '.' s) with
  | (t, []) -> t
  | _ -> failwith ("bad type (trailing tokens) " ^ s)

let ditem_of (t : string) : Model.nat * Model.ditem =
  match String.index_opt t '=' with
  | None -> failwith ("bad item " ^ t)
  | Some i ->
    let id = nat_of_int (int_of_string (String.sub t 0 i)) in
    let body = String.sub t (i + 1) (String.length t - i - 1) in
    let rest () = if String.length body > 2 then String.sub body 2 (String.length body - 2) else "" in
    let tys s = List.map dty_of_string (split_on ',' s) in
    let it =
      match body with
      | "S" -> Model.DService | "C" -> Model.DConst | "O" -> Model.DMod
      | _ when String.length body >= 2 && body.[1] = ':' ->
        (match body.[0] with
         | 'M' -> Model.DMsg (tys (rest ()))
         | 'E' -> Model.DEnum (List.map tys (if rest () = "" then [] else String.split_on_char '/' (rest ())))
         | 'N' -> Model.DNewType (dty_of_string (rest ()))
         | _ -> failwith ("bad item " ^ t))
      | _ -> failwith ("bad item " ^ t) in
    (id, it)

let run (line : string) : string =
  match String.split_on_char ' ' line with
  | ["disp"; s] -> os (Model.display (cs s))
  | ["tok"; s] -> if Model.ident_token_ok (cs s) then "1" else "0"
  | "emit" :: cc :: sibs ->
    let parsed = List.map (fun t ->
        match String.split_on_char ':' t with
        | [k; o; c; tag] -> (kind_of k, o, c, tag)
        | _ -> failwith ("bad sibling " ^ t)) sibs in
    let table = List.map (fun (k, o, c, _) -> ((k, o), c)) parsed in
    let conv k s =
      let so = os s in
      match List.assoc_opt (k, so) table with
      | Some c -> cs c
      | None ->
        (* conv is applied to original spellings only; idempotence is not exercised here *)
        (match List.find_opt (fun ((k', _), c) -> k' = k && c = so) table with Some _ -> s | None -> s) in
    let scope = List.map (fun (k, o, _, tag) ->
        { Model.s_kind = k; Model.s_orig = cs o; Model.s_tag = (if tag = "-" then None else Some (cs tag)) }) parsed in
    String.concat "," (List.map (fun x -> os (Model.emitted conv (cc = "1") scope x)) scope)
  | ["rel"; a; b] ->
    (match Model.related_path (path_of a) (path_of b) with
     | Some l -> String.concat "::" (List.map os l)
     | None -> "panic")
  | ["wrel"; a; b] ->
    (match Model.wrelated_path (path_of a) (path_of b) with
     | Some (Model.WRel l) -> String.concat "::" (List.map os l)
     | Some (Model.WAbs l) -> "::" ^ String.concat "::" (List.map os l)
     | None -> "panic")
  | ["res"; a; b] ->
    (match Model.resolve_item (path_of a) (path_of b) with
     | Some (m, it) -> path_to m ^ "|" ^ os it
     | None -> "none")
  | [("box" | "ucyc") as cmd; g] ->
    let items = List.map (fun t ->
        match String.split_on_char '=' t with
        | [id; body] ->
          let id = nat_of_int (int_of_string id) in
          let it =
            if body = "O" then Model.IOther
            else begin
              let tag = body.[0] and rest = String.sub body 2 (String.length body - 2) in
              match tag with
              | 'M' -> Model.IMsg (List.map fty_of (split_on ',' rest))
              | 'E' -> Model.IEnum (List.map (fun v -> List.map fty_of (split_on ',' v)) (split_on '/' rest))
              | 'N' -> Model.INewType (fty_of rest)
              | _ -> failwith ("bad item " ^ t)
            end in
          (id, it)
        | _ -> failwith ("bad item " ^ t)) (split_on ';' g) in
    if cmd = "ucyc" then (if Model.union_cycle_b items then "1" else "0") else
    String.concat " " (List.map (fun ((o, i), b) ->
        Printf.sprintf "%d.%d=%d" (int_of_nat o) (int_of_nat i) (if b then 1 else 0)) (Model.box_decisions items))
  | ["layout"; split; extra; items] ->
    let extra = if extra = "-" then [] else List.map path_of (split_on ';' extra) in
    let items = List.map (fun t ->
        match String.split_on_char '|' t with
        | [mp; pre; nm; em] -> (path_of mp, (cs pre, (cs nm, cs em)))
        | _ -> failwith ("bad item " ^ t)) (if items = "-" then [] else split_on ';' items) in
    String.concat ";" (List.map (fun (p, names) -> path_to p ^ "=" ^ String.concat "," (List.map os names))
                         (Model.layout_pred (split = "1") extra items))
  | ["uniq"; ex; s] -> os (Model.generate_unique_name (path_of ex) (cs s))
  | ["layoutd"; split; extra; dd; items] ->
    let extra = if extra = "-" then [] else List.map path_of (split_on ';' extra) in
    let dd = if dd = "-" then [] else List.map cs (split_on ',' dd) in
    let items = List.map (fun t ->
        match String.split_on_char '|' t with
        | [mp; pre; nm; em; key] -> ((path_of mp, (cs pre, (cs nm, cs em))), cs key)
        | _ -> failwith ("bad item " ^ t)) (if items = "-" then [] else split_on ';' items) in
    String.concat ";" (List.map (fun (p, names) -> path_to p ^ "=" ^ String.concat "," (List.map os names))
                         (Model.layout_pred_dedup (split = "1") extra dd items))
  | ["collect"; roots; consts; g] ->
    let ids s = if s = "-" then [] else List.map (fun x -> nat_of_int (int_of_string x)) (split_on ',' s) in
    let table = List.map (fun t ->
        match String.split_on_char ':' t with
        | [d; sc] -> (int_of_string d, ids (if sc = "" then "-" else sc))
        | _ -> failwith ("bad node " ^ t)) (split_on ';' g) in
    let succs d = match List.assoc_opt (int_of_nat d) table with Some l -> l | None -> [] in
    String.concat "," (List.map (fun d -> string_of_int (int_of_nat d))
                         (Model.collect_items succs (nat_of_int (List.length table + 1)) (ids roots) (ids consts)))
  | "helpers" :: service :: fns ->
    let parsed = List.map (fun t ->
        match String.split_on_char ':' t with
        | [n; c; tag; th] -> (n, c, tag, th)
        | _ -> failwith ("bad function " ^ t)) fns in
    (* camel as a table over the names the model can ask for: raw names and tags *)
    let table = List.concat_map (fun (n, c, tag, _) ->
        match String.split_on_char '/' c with
        | [cn; ct] -> [(n, cn); (tag, ct)]
        | [cn] -> [(n, cn)]
        | _ -> failwith ("bad camel " ^ c)) parsed in
    let camel s = match List.assoc_opt (os s) table with Some c -> cs c | None -> s in
    let fs = List.map (fun (n, _, tag, th) ->
        { Model.f_name = cs n; Model.f_tag = (if tag = "-" then None else Some (cs tag)); Model.f_throws = (th = "1") }) parsed in
    let dups = Model.duplicates camel fs in
    String.concat " " (List.map (fun f ->
        String.concat "," (List.map os (Model.helper_items camel (cs service) dups f)) ^ "|" ^
        (match Model.exception_path camel (cs service) dups f with Some p -> os p | None -> "-")) fs)
  | ["derive"; tr; order; g] ->
    let tr = (match tr with "po" -> Model.PO | "heo" -> Model.HEO | _ -> failwith ("bad bundle " ^ tr)) in
    let order = if order = "-" then [] else List.map (fun x -> nat_of_int (int_of_string x)) (split_on ',' order) in
    let items = List.map ditem_of (split_on ';' g) in
    let b x = if x then "1" else "0" in
    (match Model.decisions tr items order, Model.verdict tr items order with
     | Model.Done ds, Model.Done v ->
       String.concat " " (List.map (fun (d, c) ->
           Printf.sprintf "%d=%s" (int_of_nat d) (match c with Model.Yes -> "Y" | Model.No -> "N" | Model.Delay -> "D")) ds)
       ^ " | closed=" ^ b (Model.closed_b items) ^ " wsc=" ^ b (Model.ws_complete_b items)
       ^ " cons=" ^ b v
     | Model.Panic, _ | _, Model.Panic -> "PANIC"
     | _, _ -> "FUEL")
  | _ -> failwith ("bad line " ^ line)

let () =
  try
    while true do
      let line = input_line stdin in
      let line = if String.length line > 0 && line.[String.length line - 1] = '\r' then String.sub line 0 (String.length line - 1) else line in
      (if line = "" then print_newline ()
       else
         match (try Ok (run line) with Failure m -> Error m | Not_found -> Error "not found" | Invalid_argument m -> Error m) with
         | Ok s -> print_string s; print_newline ()
         | Error m -> print_string ("BADCASE " ^ m); print_newline ())
    done
  with End_of_file -> ()
