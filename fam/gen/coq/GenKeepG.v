(* The keep_unknown_fields decode templates with the retained slice as Rust takes it: PARTIAL.
     get_bytes(Some(__pilota_begin_ptr), __pilota_offset) = Bytes::copy_from_slice(slice::from_raw_parts(ptr, len))
   reads [len] bytes starting at the field's first byte whatever is there: when the accumulated offset exceeds what is left
   of the input buffer this is an out-of-bounds READ (undefined behaviour).  GenKeep.v totalises it (firstn); here it is
   [Panic SOob].  Everything else is GenKeep.v word for word.  Proofs/KeepTotalP.v: in the binary protocols the offset is
   exactly the number of bytes consumed, the two decoders are EQUAL and never panic outside the F-13a class; in the compact
   protocol the reader's field_begin_len over-counts (finding F-13b) and the out-of-bounds slice is reachable.
   Model only, no proofs. *)
From PVGen Require Export GenKeep.
Open Scope Z_scope.

(* outside the F-13a class: no keeping struct is an `args` type (= KeepSpec.no_keep_arg) *)
Definition no_arg_keeps (S : schema) : bool :=
  forallb (fun d => match d with DStruct _ true true => false | _ => true end) S.

Definition chunk_at (n : nat) (l : list byte) : res (list byte) :=
  if Nat.leb n (length l) then Ok (firstn n l) else Panic SOob.

Section KeepLoopsG.
  Variable S : schema.
  Variable p : pk.
  Variable fuel_skip : nat.
  Variable rec : ty -> rst -> res (gval * rst).

  Fixpoint dec_fields_keep_g (m : nat) (fs : list field) (is_arg : bool) (vars : list (option gval)) (num : Z)
           (unk : list (list byte)) (s : rst) {struct m} : res (list (option gval) * list (list byte) * rst) :=
    match m with
    | O => Err EOutOfFuel
    | Datatypes.S m' =>
        if is_arg && (num =? 0) then
          (* skip_all: `_unknown_fields.push_back(get_bytes(None, remaining - 2)?); break;` *)
          let rem := Z.of_nat (length (rbuf s)) in
          if rem <? 2 then Panic SOverflow          (* usize underflow (debug build) *)
          else let* (chunk, s) := r_take (Z.to_nat (rem - 2)) s in Ok (vars, unk ++ [chunk], s)
        else
          let s0 := s in
          let* (h, s) := r_field_begin p s in
          if ttype_eqb (fst h) TStop then
            let* (_, s) := r_field_stop_len p s in Ok (vars, unk, s)
          else
            let* (n1, s) := r_field_begin_len p (fst h) (snd h) s in
            let* (r, s) :=
              match match_field S fs O (snd h) (fst h) with
              | Some (i, f) =>
                  let* (x, s) := rec (f_ty f) s in Ok ((set_nth i (Some x) vars, num - 1, unk), s)
              | None =>
                  let* (n2, s) := skip p fuel_skip (fst h) s in
                  let* c := chunk_at (Z.to_nat (n1 + n2)) (rbuf s0) in
                  Ok ((vars, num, unk ++ [c]), s)
              end in
            let* (_, s) := r_field_end_len p s in
            dec_fields_keep_g m' fs is_arg (fst (fst r)) (snd (fst r)) (snd r) s
    end.

  Fixpoint dec_variants_keep_g (m : nat) (vs : list (Z * ty)) (ret : uret) (s : rst) {struct m} : res (uret * rst) :=
    match m with
    | O => Err EOutOfFuel
    | Datatypes.S m' =>
        let s0 := s in
        let* (h, s) := r_field_begin p s in
        if ttype_eqb (fst h) TStop then
          let* (_, s) := r_field_stop_len p s in Ok (ret, s)
        else
          let* (n1, s) := r_field_begin_len p (fst h) (snd h) s in
          let known := match snd h with
                       | Some id => match find_variant vs id with
                                    | Some vt => if is_void (resolve S vt) then None else Some (id, vt)
                                    | None => None
                                    end
                       | None => None
                       end in
          match known with
          | Some (id, vt) =>
              match ret with
              | UNone => let* (x, s) := rec vt s in dec_variants_keep_g m' vs (UKnown id x) s
              | _ => Err EInvalidData
              end
          | None =>
              let* (n2, s) := skip p fuel_skip (fst h) s in
              match ret with
              | UNone => let* c := chunk_at (Z.to_nat (n1 + n2)) (rbuf s0) in dec_variants_keep_g m' vs (UUnknown c) s
              | _ => Err EInvalidData            (* received multiple fields for union *)
              end
          end
    end.
End KeepLoopsG.

(* decoder of a build with keep_unknown_fields: types whose decl has keep = true retain *)
Fixpoint gen_decode_keep_g (S : schema) (p : pk) (fuel : nat) (t : ty) (s : rst) {struct fuel} : res (gval * rst) :=
  match fuel with
  | O => Err EOutOfFuel
  | Datatypes.S f =>
      match resolve S t with
      | TyBool => let* (b, s) := r_bool p s in Ok (GBool b, s)
      | TyI8 => let* (z, s) := r_i8 s in Ok (GI8 z, s)
      | TyI16 => let* (z, s) := r_i16 p s in Ok (GI16 z, s)
      | TyI32 => let* (z, s) := r_i32 p s in Ok (GI32 z, s)
      | TyI64 => let* (z, s) := r_i64 p s in Ok (GI64 z, s)
      | TyDouble => let* (z, s) := r_double p s in Ok (GDouble z, s)
      | TyString | TyBinary => let* (l, s) := r_bytes p s in Ok (GBytes l, s)
      | TyUuid => let* (l, s) := r_uuid s in Ok (GUuid l, s)
      | TyVoid =>
          let* (_, s) := r_struct_begin p s in
          let* (_, s) := r_struct_end p s in Ok (GVoid, s)
      | TyList et =>
          let* (h, s) := r_coll_begin p s in
          let* (l, s) := dec_elems (gen_decode_keep_g S p f) (Datatypes.S f) et (snd h) s [] in
          Ok (GList l, s)
      | TySet et =>
          let* (h, s) := r_coll_begin p s in
          let* (l, s) := dec_elems (gen_decode_keep_g S p f) (Datatypes.S f) et (snd h) s [] in
          Ok (GSet l, s)
      | TyMap kt vt =>
          let* (h, s) := r_map_begin p s in
          let* (l, s) := dec_pairs (gen_decode_keep_g S p f) (Datatypes.S f) kt vt (snd h) s [] in
          Ok (GMap l, s)
      | TyRef n =>
          match lookup S n with
          | Some (DEnum _) => let* (z, s) := r_i32 p s in Ok (GEnum z, s)
          | Some (DStruct fs true is_arg) =>
              let* (_, s) := r_struct_begin p s in
              let* (r, s) := dec_fields_keep_g S p f (gen_decode_keep_g S p f) (Datatypes.S f) fs is_arg (map init_var fs)
                                             (Z.of_nat (length fs)) [] s in
              let* (_, s) := r_struct_end p s in
              let* out := finish_fields fs (fst r) in
              Ok (GStruct out (snd r), s)
          | Some (DStruct fs false _) =>
              let* (_, s) := r_struct_begin p s in
              let* (vars, s) := dec_fields S p f (gen_decode_keep_g S p f) (Datatypes.S f) fs (map init_var fs) s in
              let* (_, s) := r_struct_end p s in
              let* out := finish_fields fs vars in
              Ok (GStruct out [], s)
          | Some (DUnion vs void_ok true) =>
              let* (_, s) := r_struct_begin p s in
              let* (ret, s) := dec_variants_keep_g S p f (gen_decode_keep_g S p f) (Datatypes.S f) vs UNone s in
              let* (_, s) := r_struct_end p s in
              match ret with
              | UKnown id x => Ok (GUnion id x, s)
              | UUnknown c => Ok (GUnionUnknown c, s)
              | UNone =>
                  if void_ok then
                    match vs with (id0, _) :: _ => Ok (GUnion id0 GVoid, s) | [] => Err EInvalidData end
                  else Err EInvalidData
              end
          | Some (DUnion vs void_ok false) =>
              let* (_, s) := r_struct_begin p s in
              let* (ret, s) := dec_variants S p f (gen_decode_keep_g S p f) (Datatypes.S f) vs None s in
              let* (_, s) := r_struct_end p s in
              match ret with
              | Some (id, x) => Ok (GUnion id x, s)
              | None =>
                  if void_ok then
                    match vs with (id0, _) :: _ => Ok (GUnion id0 GVoid, s) | [] => Err EInvalidData end
                  else Err EInvalidData
              end
          | Some (DTypedef _) => Err EOther
          | None => Err EOther
          end
      end
  end.

Definition gen_decode_keep_g_top (S : schema) (p : pk) (t : ty) (l : list byte) : res (gval * list byte) :=
  let* (v, s) := gen_decode_keep_g S p (length l + 80) t (mkS l r0) in Ok (v, rbuf s).
