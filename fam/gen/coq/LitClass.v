(* The decidable classes of (literal, target type) shapes on which Context::lit_into_ty / ident_into_ty panic although
   the literal is well-typed IDL.  Each class is a registered finding of property C14 (pilota-build must generate
   code that compiles for every supported IDL; here it does not generate at all), see /verif/known_findings.json and
   fam/gen/FINDINGS.md ("Generator panics met while writing the corpus"):

     PCPathConvert     a const / enum-member reference whose CodegenTy is not syntactically the target's and is not one
                       of the two conversions ident_into_ty knows: panic!("invalid convert").  F-14l is the instance
                       "enum member at a typedef of the enum"; the same site answers a const used through a typedef,
                       a string const at a `pilota.rust_type = "string"` field, and every const of list / set / map type
                       (its type is Array / LazyStaticRef, never the field's Vec / AHashSet / AHashMap).
     PCNestedMap       a map-typed target reached through lit_into_ty, i.e. anywhere but at the top of a default
                       (element of a container literal, member of a struct literal, behind a typedef):
                       panic!("unexpected literal").  F-14g.
     PCNoArm           the other (literal kind, CodegenTy kind) pairs without an arm: an integer at a double that is
                       a set element / map key (OrderedF64), a string at `binary` with rust_type = "vec", any literal at
                       a `rust_wrapper_arc` type: panic!("unexpected literal").  FINDINGS.md, same paragraph as F-14g.
     PCConstContainer  a StaticRef / LazyStaticRef type (const context only; consts of set type always panic: F-14i).
     PCDangling        a reference to a const that does not exist (model artefact).

   The classification over-approximates: [pclass_into l ty = None] is a SUFFICIENT condition for the lowering to succeed
   on a well-typed literal (Proofs/LitP.v); every class has a witness that it does panic.  No proofs here. *)
From PVGen Require Export Lit.

Inductive pclass := PCPathConvert | PCNestedMap | PCNoArm | PCConstContainer | PCDangling.

Definition is_int_cty (ty : cty) : bool := match ty with CI8 | CI16 | CI32 | CI64 => true | _ => false end.
Definition is_str_cty (ty : cty) : bool := match ty with CStr => true | _ => false end.
Definition is_faststr_cty (ty : cty) : bool := match ty with CFastStr => true | _ => false end.

Definition first_class {A} (f : A -> option pclass) : list A -> option pclass :=
  fix go (l : list A) : option pclass :=
    match l with
    | [] => None
    | x :: r => match f x with Some c => Some c | None => go r end
    end.

Section Class.
  Variable S : lschema.

  Fixpoint pclass_into (l : lit) (ty : cty) {struct l} : option pclass :=
    match l with
    | LMember e _ => if cty_eqb (CAdt e) ty || is_int_cty ty then None else Some PCPathConvert
    | LConst c =>
        match ident_ty_of_const S c with
        | Some it =>
            if cty_eqb it ty || (is_str_cty it && is_faststr_cty ty)
               || (match ckind S it with Some CPAdtEnum => is_int_cty ty | _ => false end)
            then None else Some PCPathConvert
        | None => Some PCDangling
        end
    | _ =>
        match peel S (pfuel S) ty with
        | CArc _ => Some PCNoArm
        | CMap _ _ | CBTreeMap _ _ => Some PCNestedMap
        | CStaticRef _ | CLazyStaticRef _ => Some PCConstContainer
        | COrderedF64 => match l with LInt _ => Some PCNoArm | _ => None end
        | CVec inner | CSet inner | CBTreeSet inner | CArray inner =>
            match l with
            | LList els =>
                (fix go (els : list lit) : option pclass :=
                   match els with
                   | [] => None
                   | x :: r => match pclass_into x inner with Some c => Some c | None => go r end
                   end) els
            | LString _ => Some PCNoArm
            | _ => None
            end
        | CAdt n =>
            match l, item S n with
            | LMap m, Some (IStruct fs _ _) =>
                (* every value, at the type of every member its key names *)
                (fix go (m : list (lit * lit)) : option pclass :=
                   match m with
                   | [] => None
                   | (k, v) :: r =>
                       match
                         (match k with
                          | LString s =>
                              (fix over (fs : list lfield) : option pclass :=
                                 match fs with
                                 | [] => None
                                 | f :: fr =>
                                     match (if bytes_eqb s (lf_name f) then pclass_into v (item_cty (lf_ty f)) else None) with
                                     | Some c => Some c
                                     | None => over fr
                                     end
                                 end) fs
                          | _ => None
                          end)
                       with
                       | Some c => Some c
                       | None => go r
                       end
                   end) m
            | _, _ => None
            end
        | _ => None
        end
    end.

  (* at the top of a default (lit_as_rvalue): a map literal / `[]` at a map type is fine *)
  Definition pclass_top (l : lit) (ty : cty) : option pclass :=
    match ty, l with
    | CMap kt vt, LMap m | CBTreeMap kt vt, LMap m =>
        first_class (fun kv => match pclass_into (fst kv) kt with Some c => Some c | None => pclass_into (snd kv) vt end) m
    | CMap _ _, LList _ | CBTreeMap _ _, LList _ => None
    | _, _ => pclass_into l ty
    end.

  (* a const whose codegen type is the one a field of the same IDL type has (scalars, binary, enums, structs, typedefs)
     or a string: the consts a default can refer to without PCPathConvert *)
  Definition is_string_rty (t : rty) : bool := match t with RString | RFastStr => true | _ => false end.
  Definition const_simple (c : nat) : bool :=
    match nth_error (ls_consts S) c, ident_ty_of_const S c with
    | Some (ct, _), Some it => cty_eqb it (item_cty ct) || is_string_rty ct
    | _, _ => false
    end.

  (* the generator does not meet a panic class on any field default, nor in the definition of a simple const *)
  Definition item_class_free (i : litem) : bool :=
    match i with
    | IStruct fs _ _ =>
        forallb (fun f => match lf_dflt f with
                          | Some l => match pclass_top l (item_cty (lf_ty f)) with None => true | Some _ => false end
                          | None => true
                          end) fs
    | _ => true
    end.
  Definition const_class_free (c : nat) : bool :=
    if const_simple c then
      match nth_error (ls_consts S) c, ident_ty_of_const S c with
      | Some (_, l), Some it => match pclass_into l it with None => true | Some _ => false end
      | _, _ => false
      end
    else true.
  Definition class_free_schema : bool :=
    forallb item_class_free (ls_items S) && forallb const_class_free (seq 0 (length (ls_consts S))).
End Class.
