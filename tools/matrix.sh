#!/bin/bash
# matrix.sh <name> <id> [<id> ...]: regression run of seeded changes against the check of the property each one
# breaks, in an isolated copy of /verif under /tmp/vmx_<name> (so that the tables regenerated from a patched copy of
# the repository never meet a concurrent build in /verif).  Result lines are appended to seeded/MATRIX_<name>.txt
# in /verif; the copy is removed at the end.
set -u
NAME=$1; shift
SRC=$(cd "$(dirname "$0")/.." && pwd)
V=/tmp/vmx_$NAME
mkdir -p $V && rsync -a --delete --exclude '.cache/target*' $SRC/ $V/ || exit 2
# builders may be in the middle of an edit: the copy runs the COMMITTED state of every tracked file (compiled files of
# unchanged sources are reused, untracked work in progress is not part of a _CoqProject at HEAD)
git -C $V checkout -q -- . || exit 2
OUT=$SRC/seeded/MATRIX_$NAME.txt
: > $OUT
for id in "$@"; do
  prop=${id:0:3}
  start=$(date +%s)
  line=$(bash $V/tools/mut_run.sh $V/seeded/$id/patch.diff $prop 2>&1 | grep '^== ')
  echo "$id $line ($(( $(date +%s) - start )) s)" >> $OUT
done
rm -rf $V
echo done >> $OUT
