//! Canonical rendering of the descriptor AST (own recursive printer over the pub types; the same
//! format is produced by the OCaml model runner and by the Python document generator).
//!
//!  FILE  := (file PKG ITEM*)                 PKG := - | PATH
//!  ITEM  := (include LIT) | (cpp_include LIT) | (namespace SCOPE PATH ANNOPT) | (typedef TYPE ID ANNS)
//!         | (const ID TYPE CV ANNS) | (enum ID (EV*) ANNS) | (struct SL) | (union SL) | (exception SL)
//!         | (service ID EXT (FN*) ANNS)
//!  SL    := ID (FIELD*) ANNS
//!  ANNS  := [KEY=LIT ...]                     ANNOPT := - | ANNS
//!  FIELD := (field N ATTR TYPE ID DEF ANNS)   ATTR := required | optional | default ; DEF := - | CV
//!  TYPE  := (type TY ANNS)
//!  TY    := string | void | ... | (list TYPE CPP) | (set TYPE CPP) | (map TYPE TYPE CPP) | (path PATH) ; CPP := - | LIT
//!  CV    := (bool true|false) | (path PATH) | (str LIT) | (int N) | (double LIT) | (list CV*) | (map (CV CV)*)
//!  EV    := (ev ID VAL ANNS)                  VAL := - | N
//!  FN    := (fn ID oneway|twoway TYPE (FIELD*) (FIELD*) ANNS)        EXT := - | PATH
//!  LIT   := "..." with every byte outside 0x21..0x7e and the bytes '"' and '\' written \xx
use pilota_thrift_parser::*;

pub trait Canon {
    fn canon(&self, o: &mut String);
}

fn lit(s: &str, o: &mut String) {
    o.push('"');
    for &b in s.as_bytes() {
        if (0x21..=0x7e).contains(&b) && b != b'"' && b != b'\\' {
            o.push(b as char);
        } else {
            o.push_str(&format!("\\{:02x}", b));
        }
    }
    o.push('"');
}

fn list<T: Canon>(xs: &[T], o: &mut String) {
    o.push('(');
    for (i, x) in xs.iter().enumerate() {
        if i > 0 {
            o.push(' ');
        }
        x.canon(o);
    }
    o.push(')');
}

impl Canon for Literal {
    fn canon(&self, o: &mut String) {
        lit(&self.0, o)
    }
}
impl Canon for Ident {
    fn canon(&self, o: &mut String) {
        o.push_str(&self.0)
    }
}
impl Canon for Path {
    fn canon(&self, o: &mut String) {
        for (i, s) in self.segments.iter().enumerate() {
            if i > 0 {
                o.push('.');
            }
            s.canon(o);
        }
    }
}
impl Canon for Annotations {
    fn canon(&self, o: &mut String) {
        o.push('[');
        for (i, a) in self.0.iter().enumerate() {
            if i > 0 {
                o.push(' ');
            }
            o.push_str(&a.key);
            o.push('=');
            a.value.canon(o);
        }
        o.push(']');
    }
}
impl<T: Canon> Canon for Option<T> {
    fn canon(&self, o: &mut String) {
        match self {
            None => o.push('-'),
            Some(x) => x.canon(o),
        }
    }
}
impl Canon for CppType {
    fn canon(&self, o: &mut String) {
        self.0.canon(o)
    }
}
impl Canon for Type {
    fn canon(&self, o: &mut String) {
        o.push_str("(type ");
        self.0.canon(o);
        o.push(' ');
        self.1.canon(o);
        o.push(')');
    }
}
impl Canon for Ty {
    fn canon(&self, o: &mut String) {
        match self {
            Ty::String => o.push_str("string"),
            Ty::Void => o.push_str("void"),
            Ty::Byte => o.push_str("byte"),
            Ty::Bool => o.push_str("bool"),
            Ty::Binary => o.push_str("binary"),
            Ty::I8 => o.push_str("i8"),
            Ty::I16 => o.push_str("i16"),
            Ty::I32 => o.push_str("i32"),
            Ty::I64 => o.push_str("i64"),
            Ty::Double => o.push_str("double"),
            Ty::Uuid => o.push_str("uuid"),
            Ty::List { value, cpp_type } => {
                o.push_str("(list ");
                value.canon(o);
                o.push(' ');
                cpp_type.canon(o);
                o.push(')');
            }
            Ty::Set { value, cpp_type } => {
                o.push_str("(set ");
                value.canon(o);
                o.push(' ');
                cpp_type.canon(o);
                o.push(')');
            }
            Ty::Map { key, value, cpp_type } => {
                o.push_str("(map ");
                key.canon(o);
                o.push(' ');
                value.canon(o);
                o.push(' ');
                cpp_type.canon(o);
                o.push(')');
            }
            Ty::Path(p) => {
                o.push_str("(path ");
                p.canon(o);
                o.push(')');
            }
        }
    }
}
impl Canon for IntConstant {
    fn canon(&self, o: &mut String) {
        o.push_str(&self.0.to_string())
    }
}
impl Canon for DoubleConstant {
    fn canon(&self, o: &mut String) {
        lit(&self.0, o)
    }
}
impl Canon for ConstValue {
    fn canon(&self, o: &mut String) {
        match self {
            ConstValue::Bool(b) => o.push_str(if *b { "(bool true)" } else { "(bool false)" }),
            ConstValue::Path(p) => {
                o.push_str("(path ");
                p.canon(o);
                o.push(')');
            }
            ConstValue::String(l) => {
                o.push_str("(str ");
                l.canon(o);
                o.push(')');
            }
            ConstValue::Int(i) => {
                o.push_str("(int ");
                i.canon(o);
                o.push(')');
            }
            ConstValue::Double(d) => {
                o.push_str("(double ");
                d.canon(o);
                o.push(')');
            }
            ConstValue::List(xs) => {
                o.push_str("(list");
                for x in xs {
                    o.push(' ');
                    x.canon(o);
                }
                o.push(')');
            }
            ConstValue::Map(kvs) => {
                o.push_str("(map");
                for (k, v) in kvs {
                    o.push_str(" (");
                    k.canon(o);
                    o.push(' ');
                    v.canon(o);
                    o.push(')');
                }
                o.push(')');
            }
        }
    }
}
impl Canon for Attribute {
    fn canon(&self, o: &mut String) {
        o.push_str(match self {
            Attribute::Required => "required",
            Attribute::Optional => "optional",
            Attribute::Default => "default",
        })
    }
}
impl Canon for Field {
    fn canon(&self, o: &mut String) {
        o.push_str("(field ");
        o.push_str(&self.id.to_string());
        o.push(' ');
        self.attribute.canon(o);
        o.push(' ');
        self.ty.canon(o);
        o.push(' ');
        self.name.canon(o);
        o.push(' ');
        self.default.canon(o);
        o.push(' ');
        self.annotations.canon(o);
        o.push(')');
    }
}
impl Canon for StructLike {
    fn canon(&self, o: &mut String) {
        self.name.canon(o);
        o.push(' ');
        list(&self.fields, o);
        o.push(' ');
        self.annotations.canon(o);
    }
}
macro_rules! sl {
    ($t:ident, $kw:expr) => {
        impl Canon for $t {
            fn canon(&self, o: &mut String) {
                o.push_str(concat!("(", $kw, " "));
                self.0.canon(o);
                o.push(')');
            }
        }
    };
}
sl!(Struct, "struct");
sl!(Union, "union");
sl!(Exception, "exception");
impl Canon for EnumValue {
    fn canon(&self, o: &mut String) {
        o.push_str("(ev ");
        self.name.canon(o);
        o.push(' ');
        self.value.canon(o);
        o.push(' ');
        self.annotations.canon(o);
        o.push(')');
    }
}
impl Canon for Enum {
    fn canon(&self, o: &mut String) {
        o.push_str("(enum ");
        self.name.canon(o);
        o.push(' ');
        list(&self.values, o);
        o.push(' ');
        self.annotations.canon(o);
        o.push(')');
    }
}
impl Canon for Function {
    fn canon(&self, o: &mut String) {
        o.push_str("(fn ");
        self.name.canon(o);
        o.push_str(if self.oneway { " oneway " } else { " twoway " });
        self.result_type.canon(o);
        o.push(' ');
        list(&self.arguments, o);
        o.push(' ');
        list(&self.throws, o);
        o.push(' ');
        self.annotations.canon(o);
        o.push(')');
    }
}
impl Canon for Service {
    fn canon(&self, o: &mut String) {
        o.push_str("(service ");
        self.name.canon(o);
        o.push(' ');
        self.extends.canon(o);
        o.push(' ');
        list(&self.functions, o);
        o.push(' ');
        self.annotations.canon(o);
        o.push(')');
    }
}
impl Canon for Include {
    fn canon(&self, o: &mut String) {
        o.push_str("(include ");
        self.path.canon(o);
        o.push(')');
    }
}
impl Canon for CppInclude {
    fn canon(&self, o: &mut String) {
        o.push_str("(cpp_include ");
        self.0.canon(o);
        o.push(')');
    }
}
impl Canon for Scope {
    fn canon(&self, o: &mut String) {
        o.push_str(&self.0)
    }
}
impl Canon for Namespace {
    fn canon(&self, o: &mut String) {
        o.push_str("(namespace ");
        self.scope.canon(o);
        o.push(' ');
        self.name.canon(o);
        o.push(' ');
        self.annotations.canon(o);
        o.push(')');
    }
}
impl Canon for Typedef {
    fn canon(&self, o: &mut String) {
        o.push_str("(typedef ");
        self.r#type.canon(o);
        o.push(' ');
        self.alias.canon(o);
        o.push(' ');
        self.annotations.canon(o);
        o.push(')');
    }
}
impl Canon for Constant {
    fn canon(&self, o: &mut String) {
        o.push_str("(const ");
        self.name.canon(o);
        o.push(' ');
        self.r#type.canon(o);
        o.push(' ');
        self.value.canon(o);
        o.push(' ');
        self.annotations.canon(o);
        o.push(')');
    }
}
impl Canon for Item {
    fn canon(&self, o: &mut String) {
        match self {
            Item::Include(x) => x.canon(o),
            Item::CppInclude(x) => x.canon(o),
            Item::Namespace(x) => x.canon(o),
            Item::Typedef(x) => x.canon(o),
            Item::Constant(x) => x.canon(o),
            Item::Enum(x) => x.canon(o),
            Item::Struct(x) => x.canon(o),
            Item::Union(x) => x.canon(o),
            Item::Exception(x) => x.canon(o),
            Item::Service(x) => x.canon(o),
        }
    }
}
impl Canon for File {
    fn canon(&self, o: &mut String) {
        o.push_str("(file ");
        self.package.canon(o);
        for it in &self.items {
            o.push(' ');
            it.canon(o);
        }
        o.push(')');
    }
}
