(* the functions of pilota/src/prost/encoding.rs (outside its test modules) this family's models, regenerated tables and harnesses
   were written against: enclosing modules / macros :: signature without whitespace, in source order.  A hand-kept copy of
   Generated/PbFns.v at the time of writing -- a new, removed or re-typed function (a new codec module, a changed merge
   signature, a helper that starts reading Buf differently) makes C05_encoding_fns fail until this list is revisited. *)
From Coq Require Import String List.
Import ListNotations.
Open Scope string_scope.

Definition accounted_encoding_fns : list string :=
  ["pubfnencode_varint<B>(mutvalue:u64,buf:&mutB)whereB:BufMut,";
   "pubfndecode_varint<B>(buf:&mutB)->Result<u64,DecodeError>whereB:Buf,";
   "fndecode_varint_slice(bytes:&[u8])->Result<(u64,usize),DecodeError>";
   "fndecode_varint_slow<B>(buf:&mutB)->Result<u64,DecodeError>whereB:Buf,";
   "fndefault()->DecodeContext";
   "pub(crate)fnenter_recursion(&self)->DecodeContext";
   "pub(crate)fnenter_recursion(&self)->DecodeContext";
   "pub(crate)fnlimit_reached(&self)->Result<(),DecodeError>";
   "pub(crate)fnlimit_reached(&self)->Result<(),DecodeError>";
   "pubfnencoded_len_varint(value:u64)->usize";
   "fntry_from(value:u64)->Result<Self,Self::Error>";
   "pubfnencode_key<B>(tag:u32,wire_type:WireType,buf:&mutB)whereB:BufMut,";
   "pubfndecode_key<B>(buf:&mutB)->Result<(u32,WireType),DecodeError>whereB:Buf,";
   "pubfnkey_len(tag:u32)->usize";
   "pubfncheck_wire_type(expected:WireType,actual:WireType)->Result<(),DecodeError>";
   "pubfnmerge_loop<T,M,B>(value:&mutT,buf:&mutB,ctx:DecodeContext,mutmerge:M,)->Result<(),DecodeError>whereM:FnMut(&mutT,&mutB,DecodeContext)->Result<(),DecodeError>,B:Buf,";
   "pubfnskip_field<B>(wire_type:WireType,tag:u32,buf:&mutB,ctx:DecodeContext,)->Result<(),DecodeError>whereB:Buf,";
   "encode_repeated!::pubfnencode_repeated<B>(tag:u32,values:&[$ty],buf:&mutB)whereB:::bytes::BufMut,";
   "varint!::pubfnencode<B>(tag:u32,$to_uint64_value:&$ty,buf:&mutB)whereB:BufMut";
   "varint!::pubfnmerge<B>(wire_type:WireType,value:&mut$ty,buf:&mutB,_ctx:DecodeContext)->Result<(),DecodeError>whereB:Buf";
   "varint!::pubfnencode_packed<B>(tag:u32,values:&[$ty],buf:&mutB)whereB:BufMut";
   "varint!::pubfnencoded_len(tag:u32,$to_uint64_value:&$ty)->usize";
   "varint!::pubfnencoded_len_repeated(tag:u32,values:&[$ty])->usize";
   "varint!::pubfnencoded_len_packed(tag:u32,values:&[$ty])->usize";
   "int32::pubfnencode<B,T:Into<i32>+Copy>(tag:u32,value:&T,buf:&mutB)whereB:BufMut,";
   "int32::pubfnmerge<B,T:TryFrom<i32>>(wire_type:WireType,value:&mutT,buf:&mutB,_ctx:DecodeContext,)->Result<(),DecodeError>whereT::Error:Into<DecodeError>,B:Buf,";
   "int32::pubfninner_merge<B,T:TryFrom<i32>>(wire_type:WireType,buf:&mutB,_ctx:DecodeContext,)->Result<T,DecodeError>whereT::Error:Into<DecodeError>,B:Buf,";
   "int32::pubfnencode_repeated<B,T:Into<i32>+Copy>(tag:u32,values:&[T],buf:&mutB)whereB:::bytes::BufMut,";
   "int32::pubfnencode_packed<B>(tag:u32,values:&[i32],buf:&mutB)whereB:BufMut,";
   "int32::pubfnmerge_repeated<B,T:TryFrom<i32>>(wire_type:crate::prost::encoding::WireType,values:&mutVec<T>,buf:&mutB,ctx:DecodeContext,)->Result<(),DecodeError>whereT::Error:Into<crate::prost::DecodeError>,B:::bytes::Buf,";
   "int32::pubfnencoded_len<T:Into<i32>+Copy>(tag:u32,value:&T)->usize";
   "int32::pubfnencoded_len_repeated<V:Into<i32>+Copy>(tag:u32,values:&[V])->usize";
   "int32::pubfnencoded_len_packed(tag:u32,values:&[i32])->usize";
   "fixed_width!::pubfnencode<B>(tag:u32,value:&$ty,buf:&mutB)whereB:BufMut,";
   "fixed_width!::pubfnmerge<B>(wire_type:WireType,value:&mut$ty,buf:&mutB,_ctx:DecodeContext,)->Result<(),DecodeError>whereB:Buf,";
   "fixed_width!::pubfnencode_packed<B>(tag:u32,values:&[$ty],buf:&mutB)whereB:BufMut,";
   "fixed_width!::pubfnencoded_len(tag:u32,_:&$ty)->usize";
   "fixed_width!::pubfnencoded_len_repeated(tag:u32,values:&[$ty])->usize";
   "fixed_width!::pubfnencoded_len_packed(tag:u32,values:&[$ty])->usize";
   "length_delimited!::pubfnmerge_repeated<B>(wire_type:WireType,values:&mutVec<$ty>,buf:&mutB,ctx:DecodeContext,)->Result<(),DecodeError>whereB:Buf,";
   "length_delimited!::pubfnencoded_len(tag:u32,value:&$ty)->usize";
   "length_delimited!::pubfnencoded_len_repeated(tag:u32,values:&[$ty])->usize";
   "string::pubfnencode<B,T:Borrow<str>>(tag:u32,value:&T,buf:&mutB)whereB:BufMut,";
   "string::pubfnmerge<B,S:From<String>>(wire_type:WireType,value:&mutS,buf:&mutB,ctx:DecodeContext,)->Result<(),DecodeError>whereB:Buf,";
   "string::fndrop(&mutself)";
   "string::pubfnencode_repeated<B,T:Borrow<str>>(tag:u32,values:&[T],buf:&mutB)whereB:::bytes::BufMut,";
   "string::pubfnmerge_repeated<B,T:From<String>>(wire_type:WireType,values:&mutVec<T>,buf:&mutB,ctx:DecodeContext,)->Result<(),DecodeError>whereB:Buf,";
   "string::pubfnencoded_len<T:Borrow<str>>(tag:u32,value:&T)->usize";
   "string::pubfnencoded_len_repeated<T:Borrow<str>>(tag:u32,values:&[T])->usize";
   "faststr::pubfnencode<B,T:Borrow<str>>(tag:u32,value:&T,buf:&mutB)whereB:BufMut,";
   "faststr::pubfnmerge<B>(wire_type:WireType,value:&mutFastStr,buf:&mutB,ctx:DecodeContext,)->Result<(),DecodeError>whereB:Buf,";
   "faststr::pubfnencode_repeated<B,T:Borrow<str>>(tag:u32,values:&[T],buf:&mutB)whereB:::bytes::BufMut,";
   "faststr::pubfnmerge_repeated<B>(wire_type:WireType,values:&mutVec<FastStr>,buf:&mutB,ctx:DecodeContext,)->Result<(),DecodeError>whereB:Buf,";
   "faststr::pubfnencoded_len<T:Borrow<str>>(tag:u32,value:&T)->usize";
   "faststr::pubfnencoded_len_repeated<T:Borrow<str>>(tag:u32,values:&[T])->usize";
   "sealed::fnlen(&self)->usize";
   "sealed::fnreplace_with<B>(&mutself,buf:B)whereB:Buf";
   "sealed::fnappend_to<B>(&self,buf:&mutB)whereB:BufMut";
   "sealed::fnis_empty(&self)->bool";
   "fnlen(&self)->usize";
   "fnreplace_with<B>(&mutself,mutbuf:B)whereB:Buf,";
   "fnappend_to<B>(&self,buf:&mutB)whereB:BufMut,";
   "fnlen(&self)->usize";
   "fnreplace_with<B>(&mutself,buf:B)whereB:Buf,";
   "fnappend_to<B>(&self,buf:&mutB)whereB:BufMut,";
   "bytes::pubfnencode<A,B>(tag:u32,value:&A,buf:&mutB)whereA:BytesAdapter,B:BufMut,";
   "bytes::pubfnmerge<A,B>(wire_type:WireType,value:&mutA,buf:&mutB,_ctx:DecodeContext,)->Result<(),DecodeError>whereA:BytesAdapter,B:Buf,";
   "bytes::pub(super)fnmerge_one_copy<A,B>(wire_type:WireType,value:&mutA,buf:&mutB,_ctx:DecodeContext,)->Result<(),DecodeError>whereA:BytesAdapter,B:Buf,";
   "message::pubfnencode<M,B>(tag:u32,msg:&M,buf:&mutB)whereM:Message,B:BufMut,";
   "message::pubfnmerge<M,B>(wire_type:WireType,msg:&mutM,buf:&mutB,ctx:DecodeContext,)->Result<(),DecodeError>whereM:Message,B:Buf,";
   "message::pubfnencode_repeated<M,B>(tag:u32,messages:&[M],buf:&mutB)whereM:Message,B:BufMut,";
   "message::pubfnmerge_repeated<M,B>(wire_type:WireType,messages:&mutVec<M>,buf:&mutB,ctx:DecodeContext,)->Result<(),DecodeError>whereM:Message+Default,B:Buf,";
   "message::pubfnencoded_len<M>(tag:u32,msg:&M)->usizewhereM:Message,";
   "message::pubfnencoded_len_repeated<M>(tag:u32,messages:&[M])->usizewhereM:Message,";
   "group::pubfnencode<M,B>(tag:u32,msg:&M,buf:&mutB)whereM:Message,B:BufMut,";
   "group::pubfnmerge<M,B>(tag:u32,wire_type:WireType,msg:&mutM,buf:&mutB,ctx:DecodeContext,)->Result<(),DecodeError>whereM:Message,B:Buf,";
   "group::pubfnencode_repeated<M,B>(tag:u32,messages:&[M],buf:&mutB)whereM:Message,B:BufMut,";
   "group::pubfnmerge_repeated<M,B>(tag:u32,wire_type:WireType,messages:&mutVec<M>,buf:&mutB,ctx:DecodeContext,)->Result<(),DecodeError>whereM:Message+Default,B:Buf,";
   "group::pubfnencoded_len<M>(tag:u32,msg:&M)->usizewhereM:Message,";
   "group::pubfnencoded_len_repeated<M>(tag:u32,messages:&[M])->usizewhereM:Message,";
   "map!::pubfnencode<K,V,B,KE,KL,VE,VL>(key_encode:KE,key_encoded_len:KL,val_encode:VE,val_encoded_len:VL,tag:u32,values:&$map_ty<K,V>,buf:&mutB,)whereK:Default+Eq+Hash+Ord,V:Default+PartialEq,B:BufMut,KE:Fn(u32,&K,&mutB),KL:Fn(u32,&K)->usize,VE:Fn(u32,&V,&mutB),VL:Fn(u32,&V)->usize,";
   "map!::pubfnmerge<K,V,B,KM,VM>(key_merge:KM,val_merge:VM,values:&mut$map_ty<K,V>,buf:&mutB,ctx:DecodeContext,)->Result<(),DecodeError>whereK:Default+Eq+Hash+Ord,V:Default,B:Buf,KM:Fn(WireType,&mutK,&mutB,DecodeContext)->Result<(),DecodeError>,VM:Fn(WireType,&mutV,&mutB,DecodeContext)->Result<(),DecodeError>,";
   "map!::pubfnencoded_len<K,V,KL,VL>(key_encoded_len:KL,val_encoded_len:VL,tag:u32,values:&$map_ty<K,V>,)->usizewhereK:Default+Eq+Hash+Ord,V:Default+PartialEq,KL:Fn(u32,&K)->usize,VL:Fn(u32,&V)->usize,";
   "map!::pubfnencode_with_default<K,V,B,KE,KL,VE,VL>(key_encode:KE,key_encoded_len:KL,val_encode:VE,val_encoded_len:VL,val_default:&V,tag:u32,values:&$map_ty<K,V>,buf:&mutB,)whereK:Default+Eq+Hash+Ord,V:PartialEq,B:BufMut,KE:Fn(u32,&K,&mutB),KL:Fn(u32,&K)->usize,VE:Fn(u32,&V,&mutB),VL:Fn(u32,&V)->usize,";
   "map!::pubfnmerge_with_default<K,V,B,KM,VM>(key_merge:KM,val_merge:VM,val_default:V,values:&mut$map_ty<K,V>,buf:&mutB,ctx:DecodeContext,)->Result<(),DecodeError>whereK:Default+Eq+Hash+Ord,B:Buf,KM:Fn(WireType,&mutK,&mutB,DecodeContext)->Result<(),DecodeError>,VM:Fn(WireType,&mutV,&mutB,DecodeContext)->Result<(),DecodeError>,";
   "map!::pubfnencoded_len_with_default<K,V,KL,VL>(key_encoded_len:KL,val_encoded_len:VL,val_default:&V,tag:u32,values:&$map_ty<K,V>,)->usizewhereK:Default+Eq+Hash+Ord,V:PartialEq,KL:Fn(u32,&K)->usize,VL:Fn(u32,&V)->usize,"].
