(* C08 -- generated decoders are tolerant readers across schema evolution.

   R is the READER's schema (any schema value; no well-formedness is needed for the refinement theorems), T the type
   being decoded, p ranges over {binary, binary-LE, compact}, k over the buffer kinds of the writer.  The writer is
   represented by what it puts on the wire: a self-describing value tree tv (PV.Thrift.Value.tval: field ids and wire
   types, no names, no declared types).  Every writer schema obtained from R by adding / removing / re-typing /
   re-ordering fields and union variants, adding enum numbers or changing requiredness produces such a tree, so "for
   all well-typed tv of the declared wire type" covers "for all writer schemas x all values".  Bytes are those of
   pilota's own encoder (write_val; equal to the emitted encoders by C02_encode_is_write_val) in C08_tolerant /
   errors_exact / frame, and ANY bytes the generic reader of the runtime accepts in C08_refines.

   [view R T tv] (EvoSpec.v) is the value a tolerant reader must produce: per wire field, the declared field with that
   id AND that wire type is set (a later occurrence replaces an earlier one; writers never repeat an id), every other
   field is dropped; absent fields get their IDL default, stay empty (optional) or make the reader fail (required);
   enum numbers are kept as they are; nested structs / containers are viewed recursively; a union yields its single
   known variant, fails on none (except the empty reply of a void method) or more than one.

   Domain (decidable):
     evo_dom R T tv            container headers announce the wire type of the declared element type (list<i32> ->
                               list<i64> keeps wire type List: not an evolution any Thrift reader can notice, DESIGN 5.8),
                               and ignored values nest at most MAXIMUM_SKIP_DEPTH (=64) deep (deeper ones are answered by
                               DepthLimit: property C07)
     no_retyped_variant R T tv no union variant the reader knows arrives with another wire type -- finding F-08a: the
                               union template matches on the id only; refuted without it (C08_union_retyped_refuted). *)
From PVGen Require Import Gen GenSpec EvoSpec Proofs.EvoBase Proofs.EvoP Proofs.EvoTopP Proofs.EvoErrP Proofs.EvoDeclP Proofs.EvoDeepP Proofs.EvoSkipP.
From PV Require Import Proofs.HeaderP.
Open Scope Z_scope.

(* the emitted decoder refines the specification on EVERY input on which the runtime's self-describing reader
   (Interp.read_val, the reader of C01/C07) returns a value: same result (value or error class), same end
   position, same reader context.  r_pfield = false: no length-pass bool is pending (true of every fresh reader). *)
Theorem C08_refines : forall R p fuel T s v s',
  read_val p fuel (ttype_of_ty R T) s = Ok (v, s') -> r_pfield (rc s) = false ->
  evo_dom R T v = true -> no_retyped_variant R T v = true ->
  gen_decode R p fuel T s = lift_view (view R T v) s'.
Proof. exact evo_refines. Qed.
Print Assumptions C08_refines.

(* tolerant reader: whenever the specification yields a value (required fields present, union conditions met), the
   decoder returns exactly that value, consumes exactly the message (arbitrary trailing bytes r) and restores the
   reader context *)
Theorem C08_tolerant : forall R p k T tv g,
  wt tv = true -> ttype_of tv = ttype_of_ty R T ->
  evo_dom R T tv = true -> no_retyped_variant R T tv = true ->
  view R T tv = Ok g ->
  forall c, w_pend c = None ->
  exists ss, write_val p k tv c = Ok (ss, c) /\
    forall fuel r rcx, (vsize tv <= fuel)%nat -> idle rcx ->
      gen_decode R p fuel T (mkS (flat ss ++ r) rcx) = Ok (g, mkS r rcx).
Proof. exact evo_tolerant_ok. Qed.
Print Assumptions C08_tolerant.

(* errors exactly where the specification fails, with its error class; never a value other than the view; never a
   panic *)
Theorem C08_errors_exact : forall R p k T tv,
  wt tv = true -> ttype_of tv = ttype_of_ty R T ->
  evo_dom R T tv = true -> no_retyped_variant R T tv = true ->
  forall c, w_pend c = None ->
  exists ss, write_val p k tv c = Ok (ss, c) /\
    forall fuel r rcx, (vsize tv <= fuel)%nat -> idle rcx ->
      (forall e, gen_decode R p fuel T (mkS (flat ss ++ r) rcx) = Err e <-> view R T tv = Err e) /\
      (forall g s', gen_decode R p fuel T (mkS (flat ss ++ r) rcx) = Ok (g, s') -> view R T tv = Ok g /\ s' = mkS r rcx) /\
      (forall q, gen_decode R p fuel T (mkS (flat ss ++ r) rcx) <> Panic q).
Proof. exact evo_errors_exact. Qed.
Print Assumptions C08_errors_exact.

(* ... and the specification fails exactly for the reasons the property names: [must_fail] (EvoSpec.v) says,
   hereditarily along the known fields, "a required field without default is carried by no wire field of its id and
   wire type, or a union carries no known variant (unless it is the reply of a void method) or more than one". *)
Theorem C08_error_conditions_complete : forall R v t,
  must_fail R t v = true -> exists e, view R t v = Err e.
Proof. exact must_fail_complete. Qed.
Print Assumptions C08_error_conditions_complete.

Theorem C08_error_conditions_sound : forall R, wf_schema R = true -> forall v t,
  view R t v = Err EInvalidData -> must_fail R t v = true.
Proof. exact must_fail_sound. Qed.
Print Assumptions C08_error_conditions_sound.

(* on well-formed input of the declared shape the only error class is InvalidData (the other class of [view],
   EOther, marks shapes that cannot occur: a value of another wire type, a dangling type reference) *)
Theorem C08_error_class : forall R, wf_schema R = true -> forall v t e,
  ty_closed R t = true -> wt v = true -> ttype_of v = ttype_of_ty R t -> evo_dom R t v = true ->
  view R t v = Err e -> e = EInvalidData.
Proof. exact view_error_class. Qed.
Print Assumptions C08_error_class.

(* frame: a field the reader ignores (undeclared id, or declared with another wire type; for a union: not a known
   variant) can be inserted into / deleted from a struct at any position without changing the result -- at the level
   of the specification ... *)
Theorem C08_frame_view : forall R t a id x b, ignored R t id x = true ->
  view R t (VStruct (a ++ (id, x) :: b)) = view R t (VStruct (a ++ b)).
Proof. exact view_frame. Qed.
Print Assumptions C08_frame_view.

(* ... and of the bytes (under compact the encodings of the FOLLOWING fields differ too: delta-encoded ids) *)
Theorem C08_frame : forall R p k T a id x b,
  ignored R T id x = true ->
  wt (VStruct (a ++ (id, x) :: b)) = true -> TStruct = ttype_of_ty R T ->
  evo_dom R T (VStruct (a ++ (id, x) :: b)) = true -> no_retyped_variant R T (VStruct (a ++ (id, x) :: b)) = true ->
  forall c, w_pend c = None ->
  exists ss1 ss2,
    write_val p k (VStruct (a ++ (id, x) :: b)) c = Ok (ss1, c) /\
    write_val p k (VStruct (a ++ b)) c = Ok (ss2, c) /\
    forall fuel r rcx, (vsize (VStruct (a ++ (id, x) :: b)) <= fuel)%nat -> idle rcx ->
      gen_decode R p fuel T (mkS (flat ss1 ++ r) rcx) = lift_view (view R T (VStruct (a ++ b))) (mkS r rcx) /\
      gen_decode R p fuel T (mkS (flat ss2 ++ r) rcx) = lift_view (view R T (VStruct (a ++ b))) (mkS r rcx).
Proof. exact evo_frame. Qed.
Print Assumptions C08_frame.

(* the skipper the model uses for ignored fields (read-and-discard) returns exactly what the runtime's recursive
   skipper (PV.Thrift.Skip.skip, the subject of C07) returns *)
Theorem C08_skip_is_runtime_skip : forall p fuel ft s n s',
  Gen.skip p fuel ft s = Ok (n, s') -> PV.Thrift.Skip.skip p fuel ft s = Ok (n, s').
Proof. exact gen_skip_runtime. Qed.
Print Assumptions C08_skip_is_runtime_skip.

(* finding F-08a: without [no_retyped_variant] the statement is false *)
Theorem C08_union_retyped_refuted :
  exists R p k T tv ss,
    wf_schema R = true /\ wt tv = true /\ ttype_of tv = ttype_of_ty R T /\ evo_dom R T tv = true /\
    no_retyped_variant R T tv = false /\
    write_val p k tv w0 = Ok (ss, w0) /\
    view R T tv = Err EInvalidData /\
    exists g s', gen_decode R p 40 T (mkS (flat ss) r0) = Ok (g, s') /\ rbuf s' <> [].
Proof. exact union_retyped_refuted. Qed.
Print Assumptions C08_union_retyped_refuted.

(* ---------- the EMITTED decoders: lowered to ops (see Properties/C02.v, C02_emitted_ops_match, for the table lemma) ---------- *)
From PVGen Require Import EmitOps EmitDen Generated.EmittedOps Proofs.EmitOpsP Proofs.EmitDecP Proofs.EmitTableP.

(* for every struct / union of the corpus, in the plain and in the keep_unknown_fields configuration, the regenerated
   decoder -- variables and their initialisers, the loop head, the arms (field id, TType guard, assigned variable,
   Some-wrapping, read op by type, countdown), the skip arm, the retention statements, the required checks, the late
   defaults, the construction -- is the one the template model prescribes (codegen_decode / codegen_decode_fields /
   codegen_enum_impl as modelled by Gen.gen_decode and GenKeep.gen_decode_keep) *)
Theorem C08_emitted_decode_arms : forall n r ck em S,
  (ck = false /\ em = emitted_plain /\ S = schema_plain) \/ (ck = true /\ em = emitted_keep /\ S = schema_keep) ->
  nth_error em n = Some r ->
  (forall fs keep ia, lookup S n = Some (DStruct fs keep ia) ->
     exists nm e eu s su d, r = EStruct nm e eu s su d /\ norm_ds d = presc_dstruct S ck fs keep ia) /\
  (forall vs vo keep, lookup S n = Some (DUnion vs vo keep) ->
     exists nm e eu s su d, r = EUnion nm e eu s su d /\ norm_du d = presc_dunion S ck vs vo keep).
Proof. exact emitted_decode_arms. Qed.
Print Assumptions C08_emitted_decode_arms.

(* the decoder rows the template model prescribes for a build without retention denote Gen.gen_decode: every well-formed
   schema, protocol, fuel, declared type, reader state (ARBITRARY bytes).  The VALUES of the defaults are a parameter of the
   denotation (dfl_of S: the default expressions are not lowered; their meaning is C20's subject) *)
Theorem C08_ops_denote_decode : forall S p, void_variants_zero S = true -> wf_schema S = true -> forall fuel t s,
  den_dec (presc_tbl S false) (dfl_of S) p fuel (presc_rop t) s = gen_decode S p fuel t s.
Proof. exact den_dec_presc. Qed.
Print Assumptions C08_ops_denote_decode.

(* the chain for the corpus of this run: the regenerated decoder rows of the plain build denote the model decoder *)
Theorem C08_emitted_decode_is_model : forall p fuel t s,
  den_dec emitted_plain (dfl_of schema_plain) p fuel (presc_rop t) s = gen_decode schema_plain p fuel t s.
Proof. exact emitted_decode_is_model. Qed.
Print Assumptions C08_emitted_decode_is_model.

(* finding F-08b (class container-element-retyped): evo_dom also excludes a container whose header announces another
   element wire type than the declared one (writer re-typed list<i32> to list<string>; the FIELD's wire type is still
   List).  There the statement is false for the emitted code: the elements are read at the declared type -- a wrong
   value (here [2, 1633812480] from ["ab", "c"]) with the rest of the message left unread.  Replayed on the emitted
   code: `dec plain dflt.Inner binary sync 080001000000070f00040b00000002000000026162000000016300`. *)
Theorem C08_elem_retyped_refuted :
  exists R p k T tv ss,
    wf_schema R = true /\ wt tv = true /\ ttype_of tv = ttype_of_ty R T /\
    walk R skippable true T (VStruct [(1, VI32 7)]) = true /\                   (* the rest of the message is in the domain; no union occurs *)
    evo_dom R T tv = false /\
    write_val p k tv w0 = Ok (ss, w0) /\
    gen_decode R p 40 T (mkS (flat ss) r0)
      = Ok (GStruct [(1, GI32 7); (4, GList [GI32 2; GI32 1633812480])] [], mkS [x01; x63; x00] r0).
Proof. exact elem_retyped_refuted. Qed.
Print Assumptions C08_elem_retyped_refuted.

(* the Ok side of the specification, independently of the decoder model's helpers (match_field / init_var / finish_fields):
   a struct view consists, per declared field in declaration order, of the view of the LAST wire field that carries it
   (same id, declared wire type: EvoSpec.last_carried / carries), else its IDL default, else nothing *)
Theorem C08_view_declarative : forall R, wf_schema R = true -> forall t n dfs kp ia fs g,
  resolve R t = TyRef n -> lookup R n = Some (DStruct dfs kp ia) ->
  view R t (VStruct fs) = Ok g ->
  g = GStruct (flat_map (decl_field R fs) dfs) [].
Proof. exact view_declarative. Qed.
Print Assumptions C08_view_declarative.

Theorem C08_last_carried_is_last : forall R f fs x, last_carried R f fs = Some x ->
  exists a b id, fs = a ++ (id, x) :: b /\ carries R f (id, x) = true /\ existsb (carries R f) b = false.
Proof. exact last_carried_spec. Qed.
Print Assumptions C08_last_carried_is_last.

Theorem C08_last_carried_none : forall R f fs, last_carried R f fs = None -> existsb (carries R f) fs = false.
Proof. exact last_carried_none. Qed.
Print Assumptions C08_last_carried_none.

(* the third error a generated decoder may answer well-formed input with (besides a missing required field and the union
   conditions): an IGNORED field whose value nests deeper than MAXIMUM_SKIP_DEPTH = 64 is refused by the skipper with
   DepthLimit (property C07) -- [evo_dom] excludes it from C08_refines / C08_tolerant; here it is a theorem, on every input
   the generic reader accepts: the fields before it are in the domain and their views succeed (view_fields: the struct
   clause of [view], Proofs/EvoBase.v) *)
Theorem C08_depth_limit : forall R p fuel T n dfs kp ia s a id x b s' vars1,
  read_val p fuel (ttype_of_ty R T) s = Ok (VStruct (a ++ (id, x) :: b), s') -> r_pfield (rc s) = false ->
  resolve R T = TyRef n -> lookup R n = Some (DStruct dfs kp ia) ->
  walk_fields R skippable true dfs a = true -> walk_fields R (fun _ => true) false dfs a = true ->
  match_field R dfs 0 (Some id) (ttype_of x) = None ->
  skippable x = false ->
  view_fields R dfs a (map init_var dfs) = Ok vars1 ->
  gen_decode R p fuel T s = Err EDepthLimit.
Proof. exact evo_depth_limit. Qed.
Print Assumptions C08_depth_limit.
