(* C15, stage 5b: fields  (id, requiredness, type, name, default value, annotations, separator)  and runs of fields. *)
From PVIdl Require Import Comb Ast Parser Print Proofs.Total Proofs.RoundTok Proofs.RoundPath Proofs.RoundAnn Proofs.RoundTy
  Proofs.RoundKit Proofs.Lex Proofs.RoundNum Proofs.RoundConst Proofs.RoundDecl.
From Coq Require Import ZifyN ZifyNat ZifyBool.
From Coq Require String.
Import String.StringSyntax.
Open Scope nat_scope.

Definition attr_req : parser Attribute := fun i => do i, _ <- p_keyword kw_required i ;; POk i ARequired.
Definition attr_optl : parser Attribute := fun i => do i, _ <- p_keyword kw_optional i ;; POk i AOptional.
Lemma p_attribute_eq i : p_attribute i = alt [attr_req; attr_optl] i.
Proof. reflexivity. Qed.

(* a word that is not one of the two requiredness keywords is not read as one *)
Lemma attr_err_word s k : is_ident s = true -> nid k = true -> bytes_in s [txt "required"; txt "optional"] = false ->
  is_perr (p_attribute (s ++ k)).
Proof.
  intros Hs Hk Hn. cbn [bytes_in] in Hn. apply orb_false_elim in Hn. destruct Hn as [N1 N2]. apply orb_false_elim in N2.
  destruct N2 as [N2 _]. rewrite p_attribute_eq.
  rewrite alt_err by (apply pbind_err; now apply keyword_not_ident).
  apply alt_last_err. apply pbind_err. now apply keyword_not_ident.
Qed.

Lemma attr_err_mism s k : mism kw_required s = true -> mism kw_optional s = true -> is_perr (p_attribute (s ++ k)).
Proof.
  intros H1 H2. rewrite p_attribute_eq.
  rewrite alt_err by (unfold attr_req, p_keyword; apply pbind_err, pbind_err, tag_mism, H1).
  apply alt_last_err. unfold attr_optl, p_keyword. apply pbind_err, pbind_err, tag_mism, H2.
Qed.

(* the first word of a printed type *)
Lemma ty_not_attr t k : wf_ty t = true -> match t with CTPath p => bytes_in (cp_head p) [txt "required"; txt "optional"] = false | _ => True end ->
  (ty_ends_word t = true -> nid k = true) -> is_perr (p_attribute (pr_ty t k)).
Proof.
  intros Hw Hh Hk. destruct t as [b| | | |p]; cbn [pr_ty].
  - destruct b; apply attr_err_mism; reflexivity.
  - apply attr_err_mism; reflexivity.
  - apply attr_err_mism; reflexivity.
  - apply attr_err_mism; reflexivity.
  - cbn [wf_ty] in Hw. apply andb_prop in Hw. destruct Hw as [Hw _]. unfold wf_path in Hw. apply andb_prop in Hw.
    destruct Hw as [Hh1 Ht]. unfold pr_path. apply attr_err_word; auto. apply path_tail_head; auto.
Qed.

Lemma bs_nodigit b : blank_start b = true -> negb (is_digit b) = true.
Proof. destruct b; vm_compute; intro H; try reflexivity; discriminate H. Qed.

Section Field.
Variable lf : nat.
Variable whole : list byte.
Hypothesis Hlf : length whole < lf.
Variable df : nat.
Hypothesis Hdf : length whole < df.

Definition attr_rest (a : option (bool * blank)) (Y : list byte) : list byte :=
  match a with Some (_, b) => pr_blank b Y | None => Y end.
Definition attr_opt (a : option (bool * blank)) : option Attribute :=
  match a with Some (true, _) => Some ARequired | Some (false, _) => Some AOptional | None => None end.

Lemma attr_steps a t X : wf_attr a t = true -> wf_type t = true ->
  (type_ends_word t = true -> nid X = true) -> sfx (pr_attr a (pr_type t X)) whole ->
  exists o2, opt p_attribute (pr_attr a (pr_type t X)) = POk (attr_rest a (pr_type t X)) (attr_opt a) /\
             opt (p_blank lf) (attr_rest a (pr_type t X)) = POk (pr_type t X) o2.
Proof.
  intros Ha Ht Hx S. destruct a as [[req b]|]; cbn [pr_attr attr_rest attr_opt wf_attr] in *.
  - bsplit Ha. assert (Nb : b <> []) by (intros ->; discriminate).
    assert (We : wordend (pr_blank b (pr_type t X)) = true).
    { apply blank_then; auto with bsdb; intros E; contradiction. }
    destruct (oblank lf whole Hlf b (pr_type t X) Ha (type_head_nb t X Ht) ltac:(sfx_of S)) as [o2 E2].
    exists o2. split; [|exact E2]. destruct req; apply opt_ok; rewrite p_attribute_eq.
    + apply alt_ok. unfold attr_req. change kw_required with (txt "required"). now rewrite rt_keyword.
    + rewrite alt_err by (unfold attr_req, p_keyword; apply pbind_err, pbind_err, tag_mism; reflexivity).
      cbn [alt]. unfold attr_optl. change kw_optional with (txt "optional"). now rewrite rt_keyword.
  - exists None. split.
    + apply opt_err. destruct t as [ty an]. unfold head_not_in, type_path_head in Ha.
      assert (E : forall Y, (ty_ends_word ty = true -> nid Y = true) -> is_perr (p_attribute (pr_ty ty Y))).
      { intros Y HY. apply ty_not_attr; auto.
        - destruct an as [[bl l]|]; cbn [wf_type] in Ht; [bsplit Ht|]; assumption.
        - destruct ty; auto. now apply negb_true_iff in Ha. }
      destruct an as [[bl l]|]; cbn [pr_type type_ends_word] in *.
      * apply E. intros _. cbn [wf_type] in Ht. bsplit Ht. apply blank_then; auto with bsdb.
      * apply E. exact Hx.
    + apply opt_err, blank_err, type_head_nb, Ht.
Qed.

Definition p_default : parser ConstValue :=
  fun i => do i, _ <- tag sym_field_eq i ;; do i, _ <- opt (p_blank lf) i ;; p_const_value lf df i.
Definition default_rest (d : option (blank * cconst * blank)) (Z : list byte) : list byte :=
  match d with Some (_, _, b2) => pr_blank b2 Z | None => Z end.

Lemma default_steps d Z : wf_default d = true -> nb Z = true -> noeq Z = true ->
  (match d with Some (_, v, b2) => cvfollow (const_ends_word v) (const_is_path v) (pr_blank b2 Z) | None => True end) ->
  sfx (pr_default d Z) whole ->
  exists o, opt p_default (pr_default d Z) = POk (default_rest d Z) (erase_default d) /\
            opt (p_blank lf) (default_rest d Z) = POk Z o.
Proof.
  intros Hw Hn Hq Hf S. destruct d as [[[b1 v] b2]|]; cbn [pr_default default_rest erase_default wf_default] in *.
  - bsplit Hw. destruct (oblank lf whole Hlf b2 Z ltac:(assumption) Hn ltac:(sfx_of S)) as [o E]. exists o. split; [|exact E].
    apply opt_ok. unfold p_default. tg sym_field_eq (txt "=").
    obk lf whole Hlf S ltac:(now apply const_nb).
    apply (rt_const lf whole Hlf); auto; [|apply (cvfollow_cfollow lf whole Hlf); [exact Hf|sfx_of S]|sfx_of S].
    apply (cv_depth_sfx whole df v (pr_blank b2 Z)); auto. sfx_of S.
  - exists None. split.
    + apply opt_err. unfold p_default. apply pbind_err. destruct Z as [|c Z]; [exact I|]. apply tag_hd_ne.
      cbn in Hq. now apply negb_true_iff in Hq.
    + apply opt_err, blank_err, Hn.
Qed.

Theorem rt_field f k : wf_field f = true -> stop k = true -> (field_ends_word f = true -> wstop k = true) ->
  sfx (pr_field f k) whole -> p_field lf df (pr_field f k) = POk k (erase_field f).
Proof.
  intros Hw Hk Hew S. destruct f as [id b1 b2 a t b3 name b4 d an sp].
  unfold wf_field, pr_field, erase_field, field_ends_word in *.
  cbn [cf_id cf_b1 cf_b2 cf_attr cf_type cf_b3 cf_name cf_b4 cf_default cf_anns cf_sep] in *. bsplit Hw.
  assert (Nid : id <> []) by (intros ->; discriminate).
  assert (Did : is_digits id = true) by assumption.
  assert (Rid : (digits_value 10 id <=? 2147483647)%Z = true) by assumption.
  assert (Wt : wf_type t = true) by assumption.
  assert (PU : parse_unsigned 10 i32_max id = Some (digits_value 10 id)).
  { apply parse_unsigned_value_max; [clear; lia|clear; unfold i32_max; lia|clear - Rid; unfold i32_max; lia]. }
  set (T2 := pr_tail2 an sp k) in *.
  set (R := pr_default d T2) in *.
  assert (NT2 : nb T2 = true) by (unfold T2; apply tail2_head; try reflexivity; apply stop_nb, Hk).
  assert (NR : nb R = true) by (unfold R; destruct d as [[[? ?] ?]|]; cbn [pr_default]; [reflexivity|exact NT2]).
  assert (QR : noquote R = true).
  { unfold R. destruct d as [[[? ?] ?]|]; cbn [pr_default]; [reflexivity|]. unfold T2. apply tail2_head; try reflexivity.
    apply stop_noquote, Hk. }
  assert (IR : b4 = [] -> nid R = true).
  { intros ->. unfold R. destruct d as [[[? ?] ?]|]; cbn [pr_default]; [reflexivity|]. unfold T2.
    destruct an as [[l bl]|]; cbn [pr_tail2 pr_anns]; [reflexivity|]. destruct sp as [|[|] ?]; cbn [pr_sep sep_byte]; try reflexivity.
    apply wstop_nid, Hew. reflexivity. }
  assert (F : tyfollow lf (type_ends_word t) (pr_blank b3 (name ++ pr_blank b4 R))).
  { apply (tyfollow_name lf whole Hlf); auto; [|sfx_of S]. intros ->.
    match goal with H : negb (type_ends_word t) || negb (is_nil []) = true |- _ => cbn in H; rewrite orb_false_r in H;
      now apply negb_true_iff in H end. }
  unfold p_field, p_field_id, map_res.
  match goal with |- context [digit1 (id ++ ?X)] =>
    assert (ND : hd_sat (fun b => negb (is_digit b)) X = true) by (apply blank_then; auto using bs_nodigit);
    rewrite (digit1_ok id X Nid Did ND) end.
  cbn [pbind].
  obk lf whole Hlf S ltac:(reflexivity). tg sym_field_colon (txt ":").
  rewrite PU. cbn [pbind].
  obk lf whole Hlf S ltac:(destruct a as [[[|] ?]|]; cbn [pr_attr]; try reflexivity; now apply type_head_nb).
  destruct (attr_steps a t (pr_blank b3 (name ++ pr_blank b4 R)) ltac:(assumption) Wt) as [oat [E1 E2]];
    [intros E; apply (follow_wordend lf _ _ (tyfollow_0 _ _ _ F)) in E; now apply wordend_identch|sfx_of S|].
  rewrite E1. cbn [pbind]. rewrite E2. cbn [pbind].
  rewrite (rt_type lf whole Hlf df t _ (type_depth_sfx whole df t _ ltac:(sfx_of S) Hdf) Wt F) by (sfx_of S). cbn [pbind].
  obk lf whole Hlf S ltac:(now apply ident_nb).
  rewrite (rt_ident name) by (assumption || (apply blank_then; auto with bsdb)). cbn [pbind].
  obk lf whole Hlf S ltac:(exact NR).
  destruct (default_steps d T2 ltac:(assumption) NT2) as [od [E3 E4]].
  { unfold T2. apply tail2_head; try reflexivity. apply stop_noeq, Hk. }
  { destruct d as [[[bd v] b6]|]; [|exact I]. intros Ev. exists false, b6, T2.
    match goal with H : wf_default _ = true |- _ => cbn [wf_default] in H; bsplit H end.
    split; [reflexivity|]. split; [assumption|]. split; [discriminate|]. split; [exact NT2|]. split.
    - intros ->. unfold T2. destruct an as [[l bl]|]; cbn [pr_tail2 pr_anns]; [reflexivity|].
      destruct sp as [|[|] ?]; cbn [pr_sep sep_byte]; try reflexivity. apply Hew. cbn. now rewrite Ev.
    - intros _. unfold T2. apply tail2_head; try reflexivity. apply stop_nodot, Hk. }
  { sfx_of S. }
  change (fun i => do i0, _ <- tag sym_field_eq i;; do i1, _ <- opt (p_blank lf) i0;; p_const_value lf df i1) with p_default.
  subst R. rewrite E3. cbn [pbind]. rewrite E4. cbn [pbind].
  destruct (tail2_steps lf whole Hlf false an sp k ltac:(assumption) ltac:(discriminate) Hk ltac:(sfx_of S)) as (X & oa & ob & E5 & E6 & E7).
  subst T2. rewrite E5. cbn [pbind]. rewrite E6. cbn [pbind]. rewrite E7. cbn [pbind].
  f_equal. f_equal; destruct a as [[[|] ?]|]; reflexivity.
Qed.

(* ---------- runs of fields:  many0 / many1 of  [blank] field  up to a closing '}' or ')' ---------- *)
Definition fld : parser Field := fun i => do i, _ <- opt (p_blank lf) i ;; p_field lf df i.

Lemma field_head (g : byte -> bool) f k : wf_field f = true -> (forall b, is_digit b = true -> g b = true) -> hd_sat g (pr_field f k) = true.
Proof.
  intros Hw Hg. unfold wf_field in Hw. bsplit Hw. unfold pr_field.
  assert (Did : is_digits (cf_id f) = true) by assumption. assert (Nid : negb (is_nil (cf_id f)) = true) by assumption.
  destruct (cf_id f) as [|c id]; [discriminate|]. cbn [app hd_sat is_digits forallb] in *. apply andb_prop in Did. destruct Did. auto.
Qed.

Lemma digit_stop b : is_digit b = true -> stopc b = true.
Proof. destruct b; vm_compute; intro H; try reflexivity; discriminate H. Qed.

Lemma len_field f k : wf_field f = true -> length k < length (pr_field f k).
Proof.
  intros Hw. unfold wf_field in Hw. bsplit Hw. unfold pr_field. rewrite app_length.
  assert (Nid : negb (is_nil (cf_id f)) = true) by assumption. destruct (cf_id f); [discriminate|]. cbn [length].
  match goal with |- _ < _ + length ?X => assert (L : length k <= length X) by (apply sfx_len; repeat sfx_step) end.
  clear - L. lia.
Qed.

Lemma fields_follow fs c k : wf_fields fs = true -> (c = x7d \/ c = x29) ->
  stop (pr_fields fs (c :: k)) = true /\ nb (pr_fields fs (c :: k)) = true.
Proof.
  intros Hw Hc. destruct fs as [|f fs]; cbn [pr_fields wf_fields] in *.
  - destruct Hc as [-> | ->]; split; reflexivity.
  - bsplit Hw. split; [apply field_head; auto using digit_stop|apply field_head; auto]. intros b Hb. apply stop_nb with (k := [b]). cbn.
    now apply digit_stop.
Qed.

Lemma fld_stop b0 c k : wf_blank b0 = true -> (c = x7d \/ c = x29) -> sfx (pr_blank b0 (c :: k)) whole ->
  is_perr (fld (pr_blank b0 (c :: k))).
Proof.
  intros Hb Hc S. unfold fld.
  destruct (oblank lf whole Hlf b0 (c :: k) Hb ltac:(destruct Hc as [-> | ->]; reflexivity) S) as [o ->]. cbn [pbind].
  unfold p_field. apply pbind_err. unfold p_field_id. apply map_res_err, pbind_err, digit1_err.
  destruct Hc as [-> | ->]; reflexivity.
Qed.

Lemma fld_ok b0 f K : wf_blank b0 = true -> wf_field f = true -> stop K = true -> (field_ends_word f = true -> wstop K = true) ->
  sfx (pr_blank b0 (pr_field f K)) whole -> fld (pr_blank b0 (pr_field f K)) = POk K (erase_field f).
Proof.
  intros Hb Hf Hk Hew S. unfold fld.
  destruct (oblank lf whole Hlf b0 (pr_field f K) Hb) as [o ->]; [|exact S|].
  - apply field_head; auto. intros b Hd. apply stop_nb with (k := [b]). cbn. now apply digit_stop.
  - cbn [pbind]. apply rt_field; auto. sfx_of S.
Qed.

Lemma fields_loop : forall fs b0 k fuel c, (c = x7d \/ c = x29) -> wf_blank b0 = true -> wf_fields fs = true ->
  sfx (pr_blank b0 (pr_fields fs (c :: k))) whole -> length (pr_blank b0 (pr_fields fs (c :: k))) < fuel ->
  many0 fuel fld (pr_blank b0 (pr_fields fs (c :: k))) =
  POk (match fs with [] => pr_blank b0 (c :: k) | _ => c :: k end) (map erase_field fs).
Proof.
  induction fs as [|f rest IH]; intros b0 k fuel c Hc Hb0 Hw S Hf; (destruct fuel as [|fu]; [lia|]);
    cbn [pr_fields wf_fields map] in *.
  - apply many0_stop. now apply fld_stop.
  - bsplit Hw. remember (pr_fields rest (c :: k)) as K eqn:EK.
    destruct (fields_follow rest c k ltac:(assumption) Hc) as [SK NK]. rewrite <- EK in SK, NK.
    assert (EW : field_ends_word f = true -> wstop K = true).
    { intros E. match goal with H : is_nil rest || negb (field_ends_word f) = true |- _ => rewrite E in H; cbn [negb] in H;
        rewrite orb_false_r in H end. destruct rest; [|discriminate]. subst K. cbn [pr_fields]. destruct Hc as [-> | ->]; reflexivity. }
    assert (L : length K < length (pr_blank b0 (pr_field f K))).
    { pose proof (len_blank b0 (pr_field f K)) as L1. pose proof (len_field f K ltac:(assumption)) as L2. clear - L1 L2. lia. }
    rewrite (many0_step _ fu _ K (erase_field f) (fld_ok b0 f K Hb0 ltac:(assumption) SK EW S) L).
    assert (SR : sfx (pr_blank [] (pr_fields rest (c :: k))) whole) by (cbn [pr_blank]; rewrite <- EK; sfx_of S).
    assert (LR : length (pr_blank [] (pr_fields rest (c :: k))) < fu) by (cbn [pr_blank]; rewrite <- EK; clear - L Hf; lia).
    rewrite EK. change (pr_fields rest (c :: k)) with (pr_blank [] (pr_fields rest (c :: k))) at 1.
    rewrite (IH [] k fu c Hc eq_refl ltac:(assumption) SR LR). cbn [pbind]. destruct rest; reflexivity.
Qed.

End Field.

Lemma many1_loop_many0 {A} (p : parser A) : forall fuel i r l, many0 fuel p i = POk r l -> many1_loop fuel p i = POk r l.
Proof.
  induction fuel as [|f IH]; intros i r l H; cbn [many0 many1_loop] in *; [discriminate|].
  destruct (p i) as [i1 a| | | |]; try discriminate; auto.
  destruct (same_len i1 i); [discriminate|]. destruct (many0 f p i1) as [r1 l1| | | |] eqn:E; cbn [pbind] in *; try discriminate.
  rewrite (IH _ _ _ E). exact H.
Qed.

Section Field1.
Variable lf : nat.
Variable whole : list byte.
Hypothesis Hlf : length whole < lf.
Variable df : nat.
Hypothesis Hdf : length whole < df.

(* many1: at least one field *)
Lemma fields_many1 fs b0 k c : fs <> [] -> (c = x7d \/ c = x29) -> wf_blank b0 = true -> wf_fields fs = true ->
  sfx (pr_blank b0 (pr_fields fs (c :: k))) whole ->
  many1 lf (fld lf df) (pr_blank b0 (pr_fields fs (c :: k))) = POk (c :: k) (map erase_field fs).
Proof.
  intros Hne Hc Hb0 Hw S. destruct fs as [|f rest]; [contradiction|]. cbn [pr_fields wf_fields map] in *. bsplit Hw.
  remember (pr_fields rest (c :: k)) as K eqn:EK.
  destruct (fields_follow rest c k ltac:(assumption) Hc) as [SK NK]. rewrite <- EK in SK, NK.
  assert (EW : field_ends_word f = true -> wstop K = true).
  { intros E. match goal with H : is_nil rest || negb (field_ends_word f) = true |- _ => rewrite E in H; cbn [negb] in H;
      rewrite orb_false_r in H end. destruct rest; [|discriminate]. subst K. cbn [pr_fields]. destruct Hc as [-> | ->]; reflexivity. }
  unfold many1. rewrite (fld_ok lf whole Hlf df Hdf b0 f K Hb0 ltac:(assumption) SK EW S).
  assert (SR : sfx (pr_blank [] (pr_fields rest (c :: k))) whole) by (cbn [pr_blank]; rewrite <- EK; sfx_of S).
  assert (LR : length (pr_blank [] (pr_fields rest (c :: k))) < lf) by (eapply sfx_lt; eauto).
  rewrite EK. change (pr_fields rest (c :: k)) with (pr_blank [] (pr_fields rest (c :: k))) at 1.
  rewrite (many1_loop_many0 _ _ _ _ _ (fields_loop lf whole Hlf df Hdf rest [] k lf c Hc eq_refl ltac:(assumption) SR LR)).
  cbn [pbind]. destruct rest; reflexivity.
Qed.

End Field1.

(* non-vacuity: a field with a keyword-prefixed type name, a default and annotations, followed by a second field *)
Example rt_field_example :
  let f := mkCField (txt "007") [] [BWs (txt " ")] None (CType (CTPath (mkCPath (txt "optionalFoo") [])) None) [BBlock (txt "c")]
                    (txt "cpp_type") [BWs (txt " ")] (Some ([], CCBool true, []))
                    (Some ([mkCAnn [] (txt "a.b") [] [] (mkLit true (txt "v")) [] SepNone], [BLine (txt "x"); BWs [x0a]])) (SepSome false []) in
  wf_field f = true /\
  p_field 100 100 (pr_field f (txt "2:")) = POk (txt "2:") (erase_field f) /\
  f_id (erase_field f) = 7%Z /\ f_attribute (erase_field f) = ADefault.
Proof. vm_compute. repeat split. Qed.
