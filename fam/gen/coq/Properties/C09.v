(* C09 at the generated-code level -- the decoders pilota-build emits (sync templates, Gen.gen_decode) are total:
   arbitrary bytes give a value or an error.  The primitive readers and the skipper are covered by the main
   family (PV.Properties.C09); here: the emitted struct / union / container / typedef / enum decoders built on
   them, for EVERY schema (well-formed or not), every declared type, binary / binary-LE / compact, ALL byte
   strings (every truncation, bit flip, corrupted length / count / type / id is an instance) and EVERY initial
   reader context.  Statements only; lemmas in Proofs/TotalGenP.v.

   Panic sites of the emitted code that the model carries (Gen.v): the TLengthProtocol calls the sync templates
   make on the compact READER -- field_begin_len(Bool) with a bool field already pending, field_end_len /
   field_stop_len with a pending bool field, the unwraps of field_begin_len.  After the runtime repair F-09g
   (read_field_begin drops the pending announcement) none of them is reachable; before it the union template,
   which matches a variant on the id only, reached them on 4 bytes.

   Recursion depth: the fuel of gen_decode is consumed once per nested decode call, so C09_gen_total also says
   that the native recursion depth never exceeds [length l + 1] -- and that is the only bound: the templates have
   no depth limit, a recursive schema recurses once per nesting level of the INPUT (C09_gen_depth_unbounded below;
   finding F-09f, demonstrated on the implementation by the coordinator's C09 check; stack exhaustion itself is
   outside this model).
   Memory: the emitted sync container decoders preallocate from the element count returned by read_list_begin /
   read_set_begin / read_map_begin, which is bounded by the remaining input (PV.Properties.C09:
   C09_list_size_bounded, C09_map_size_bounded); byte strings are slices of the input. *)
From PV Require Import Proofs.HeaderP Proofs.PrefixP.
From PVGen Require Import Gen GenSpec Proofs.TotalGenP.
Open Scope Z_scope.

(* no panic, no hang: fuel [length l + 1] is never exhausted *)
Theorem C09_gen_total : forall S p t (l : list byte) rcx,
  let o := gen_decode S p (length l + 1) t (mkS l rcx) in
  (forall st, o <> Panic st) /\ o <> Err EOutOfFuel.
Proof. exact gen_decode_total. Qed.
Print Assumptions C09_gen_total.

(* any larger fuel gives the same guarantee (the entry point of the correspondence runner uses length l + 80) *)
Theorem C09_gen_total_fuel : forall S p t (l : list byte) rcx fuel, (length l < fuel)%nat ->
  let o := gen_decode S p fuel t (mkS l rcx) in
  (forall st, o <> Panic st) /\ o <> Err EOutOfFuel.
Proof. exact gen_decode_total_fuel. Qed.
Print Assumptions C09_gen_total_fuel.

Theorem C09_gen_total_top : forall S p t (l : list byte),
  (forall st, gen_decode_top S p t l <> Panic st) /\ gen_decode_top S p t l <> Err EOutOfFuel.
Proof. exact gen_decode_top_total. Qed.
Print Assumptions C09_gen_total_top.

(* a decoder never reads past the end of its input *)
Theorem C09_gen_consumes : forall S p f t s v s',
  (blen s < f)%nat -> gen_decode S p f t s = Ok (v, s') -> (blen s' <= blen s)%nat.
Proof. exact gen_decode_consumes. Qed.
Print Assumptions C09_gen_consumes.

(* every strict prefix of what the emitted encoder writes for a value of a declared type (a struct or any other
   type) is rejected with a genuine error -- not accepted, no panic, no fuel exhaustion *)
Theorem C09_gen_prefix : forall S p k t v,
  wf_schema S = true -> has_type S t v = true ->
  forall c, w_pend c = None ->
  exists ss, enc_ty S p k t v c = Ok (ss, c) /\
    forall n fuel rcx, (n < length (flat ss))%nat -> (vsize (to_tval S t v) <= fuel)%nat -> (n < fuel)%nat -> idle rcx ->
      exists e, gen_decode S p fuel t (mkS (firstn n (flat ss)) rcx) = Err e /\ e <> EOutOfFuel.
Proof. exact gen_prefix_rejected. Qed.
Print Assumptions C09_gen_prefix.

(* the lemma behind it: the emitted decoders are monotone in their input -- a decode that succeeds on a buffer
   succeeds with the same value on every extension and leaves the extension unread (a decoder never depends
   on what follows the message) *)
Theorem C09_gen_monotone : forall S p f t s v s' tl,
  gen_decode S p f t s = Ok (v, s') -> gen_decode S p f t (ext s tl) = Ok (v, ext s' tl).
Proof. exact gen_decode_monotone. Qed.
Print Assumptions C09_gen_monotone.

(* "never overflows the stack" is NOT provable for the emitted decoders, and the model says why: there is no depth
   limit in the templates.  For the recursive struct R { 1: optional R next } and every d there is a message the
   decoder accepts whose value is nested d+1 deep, and no run with fewer than d+1 nested decode calls (fuel <= d)
   produces it: the native recursion depth is proportional to the nesting of the input (finding F-09f). *)
Theorem C09_gen_depth_unbounded : exists S t, wf_schema S = true /\
  forall d : nat, exists l v fuel,
    gen_decode S PBinary fuel t (mkS l r0) = Ok (v, mkS [] r0) /\ gdepth v = Datatypes.S d /\
    forall f s', (f <= d)%nat -> gen_decode S PBinary f t (mkS l r0) <> Ok (v, s').
Proof. exact gen_depth_unbounded. Qed.
Print Assumptions C09_gen_depth_unbounded.
