"""Generator of Thrift IDL documents (grammar G_thrift of DESIGN.md §4, restricted to what the parser's AST can
represent) together with their layouts, for the checks of family `idl` (C15, C16).

Every gen_* function returns (tokens, canon):
  tokens : list of (kind, text) -- kind in kw / id / num / dbl / lit / punct / blank / oblank / sep
           (`oblank` = an optional blank slot, possibly empty; `blank` = a mandatory one)
  canon  : the canonical rendering of the source AST node, in the format of fam/idl/harness/src/canon.rs
The text of a document is the concatenation of its tokens after `finish()` has filled the blank slots according to
the layout policy (random / minimal / maximal) and repaired fusions (an empty optional blank between two
tokens that would otherwise lex as one).

What the generator knows about the *parser* is only the grammar (which slots exist); the expected tree is computed
from the source AST, never from the text.
"""
import random
import re

BASE_TYPES = ["string", "void", "byte", "bool", "binary", "i8", "i16", "i32", "i64", "double", "uuid"]
SCOPES = ["*", "c_glib", "cpp", "delphi", "haxe", "go", "java", "js", "lua", "netstd", "perl", "php",
          "py.twisted", "py", "rb", "st", "xsd", "rs"]
KEYWORDS = BASE_TYPES + ["list", "set", "map", "true", "false", "required", "optional", "oneway", "throws", "extends",
                         "include", "cpp_include", "namespace", "typedef", "const", "enum", "struct", "union",
                         "exception", "service", "cpp_type"]
# identifiers that merely begin with a keyword (C15), and other awkward ones
PREFIXED = ["optionalFoo", "trueish", "listing", "i32x", "onewayx", "required_t", "falsey", "true_", "stringy", "voidx",
            "mapper", "settle", "setx", "list_", "throwsX", "throws_", "extendsY", "include_x", "constx", "enumerate",
            "structure", "unionize", "exceptional", "services", "i8_", "i16a", "i64z", "doubled", "uuid4", "byte_s",
            "boolean", "binary2", "typedefs", "namespaces", "cpp_type_", "cpp_includes", "e5", "E10", "x0", "xff", "_x",
            "__files", "_", "_1", "a", "Z", "A9", "e", "x"]
I64_MAX = (1 << 63) - 1
I32_MAX = (1 << 31) - 1

TOKCH = set("abcdefghijklmnopqrstuvwxyzABCDEFGHIJKLMNOPQRSTUVWXYZ0123456789_.")


# ---------------------------------------------------------------------- where a word or a number ends
# Python mirror of Print.v `cont_ok` / `int_stops` / `dbl_stops` (fam/idl/coq): may the text `following` come directly
# (no blank, no separator) after a token without continuing it?  Exact, so that the generators can draw the layouts in
# which two tokens touch ([5x] = 5 and x, true.5, A=5B, const i8 c=5struct S{}) and only those.
_DIG = "0123456789"
_HEX = _DIG + "abcdefABCDEF"
_I64 = 2 ** 63 - 1
_WORDCH = set("abcdefghijklmnopqrstuvwxyzABCDEFGHIJKLMNOPQRSTUVWXYZ0123456789_")


def _run(chars, s):
    i = 0
    while i < len(s) and s[i] in chars:
        i += 1
    return s[:i]


def int_starts(k):
    ds = _run(_DIG, k.lstrip("-"))
    return ds != "" and int(ds) <= _I64


def exp_starts(k):
    return k[:1] in ("e", "E") and int_starts(k[1:])


def hex_continues(k):
    if k[:1] != "x":
        return False
    hs = _run(_HEX, k[1:])
    return hs != "" and int(hs, 16) <= _I64


def _split_int(t):
    """text of an integer constant -> (number of minus signs, hexadecimal?, digits)"""
    body = t.lstrip("-")
    minus = len(t) - len(body)
    if body[:2] == "0x" and len(body) > 2:
        return minus, True, body[2:]
    return minus, False, body


def int_stops(t, k):
    minus, hexa, digits = _split_int(t)
    if hexa:
        return not (k[:1] and k[0] in _HEX)
    return not (k[:1] and k[0] in _DIG) and not (digits == "0" and hex_continues(k))


def int_not_double(t, k):
    minus, hexa, digits = _split_int(t)
    return hexa or minus >= 2 or not (k[:1] == "." or exp_starts(k))


def dbl_stops(t, k):
    m = re.match(r"^-?\+?(?:\d+\.\d*|\.\d+|\d+)(?:[eE](-*(?:0x[0-9a-fA-F]+|\d+)))?$", t)
    assert m, t
    if m.group(1) is None:
        return not (k[:1] and k[0] in _DIG) and not exp_starts(k)
    return int_stops(m.group(1), k)


def touch_ok(kind, text, following):
    """kind: 'word' (identifier, keyword, true / false, path), 'int' (where a double is tried first: constant values),
    'eint' (an integer constant on its own: enum values), 'dbl', or anything else (quotes, brackets, punctuation)"""
    if kind == "word":
        return not (following[:1] and following[0] in _WORDCH)
    if kind == "int":
        return int_stops(text, following) and int_not_double(text, following)
    if kind == "eint":
        return int_stops(text, following)
    if kind == "dbl":
        return dbl_stops(text, following)
    return True


def lit_canon(b):
    """canonical literal: every byte outside 0x21..0x7e and '"' '\\' as \\xx"""
    if isinstance(b, str):
        b = b.encode("utf-8")
    out = ['"']
    for c in b:
        if 0x21 <= c <= 0x7e and c not in (0x22, 0x5c):
            out.append(chr(c))
        else:
            out.append("\\%02x" % c)
    out.append('"')
    return "".join(out)


class Gen:
    def __init__(self, rng, mode="random", max_depth=3, exotic=True, lay_rng=None):
        self.r = rng                # structural choices (the document)
        self.lr = lay_rng or rng    # layout choices (blanks, separators, quote style, numeric spelling)
        self.split = lay_rng is not None
        self.mode = mode            # random | minimal | maximal
        self.max_depth = max_depth
        self.exotic = exotic        # non-ASCII text in comments / literals, numeric spelling variants
        self.p_tail = 0.2           # probability that a text ending with a blank slot ends with an unterminated line comment

    # ------------------------------------------------------------------ lexical pieces
    def ident(self, forbid=()):
        r = self.r
        for _ in range(50):
            k = r.random()
            if k < 0.25:
                s = r.choice(PREFIXED)
            elif k < 0.33:
                s = r.choice(KEYWORDS).replace(".", "_")
            else:
                n = r.choice([1, 2, 3, 5, 8, 12])
                s = r.choice("abcdefghijklmnopqrstuvwxyzABCDEFGHIJKLMNOPQRSTUVWXYZ_") + \
                    "".join(r.choice("abcdefghijklmnopqrstuvwxyzABCDEFGHIJKLMNOPQRSTUVWXYZ0123456789_") for _ in range(n - 1))
            if s not in forbid:
                return s
        return "zz" + str(r.randrange(1000))

    def comment_text(self, forbid):
        r = self.lr
        n = r.choice([0, 1, 3, 8, 20])
        pool = ["a", "Z", "0", " ", "\t", "*", "/", "#", "'", '"', "{", "}", "<", ">", "[", "]", "(", ")", ",", ";", ":",
                "=", "-", ".", "\\", "struct", "include", "//", "/*", "* /", "1:", "true"]
        if self.exotic:
            pool += ["é", "→", "日本", "𝔘", " ", " "]
        s = "".join(r.choice(pool) for _ in range(n))
        for f in forbid:
            s = s.replace(f, "")
        return s

    def blank_atom(self):
        r = self.lr
        k = r.random()
        if k < 0.55:
            return "".join(r.choice(" \t\r\n") if r.random() < 0.5 else " " for _ in range(r.choice([1, 1, 2, 4])))
        if k < 0.7:
            return "//" + self.comment_text(["\n"]) + "\n"
        if k < 0.85:
            return "#" + self.comment_text(["\n"]) + "\n"
        t = self.comment_text(["*/"])
        while "*/" in t:
            t = t.replace("*/", "")
        return "/*" + t + "*/"

    def blank_text(self, mandatory):
        r = self.lr
        if self.mode == "minimal":
            return " " if mandatory else ""
        if self.mode == "maximal":
            return " \t\r\n" + "// line → comment ' \" */ {\n" + "# hash comment /* \n" + "/* block\n // # ' \" comment é * / */" + "\n\t"
        if not mandatory and r.random() < 0.45:
            return ""
        n = r.choice([1, 1, 1, 2, 3])
        return "".join(self.blank_atom() for _ in range(n))

    def B(self):
        return [("blank", None)]

    def b(self):
        return [("oblank", None)]

    def sep(self, mandatory=False):
        """optional list separator slot: nothing | ',' | ';'   (followed by an optional blank when present)"""
        r = self.lr
        if mandatory:
            c = r.choice(",;")
        elif self.mode == "minimal":
            c = ""
        elif self.mode == "maximal":
            c = r.choice(",;")
        else:
            c = r.choice(["", "", ",", ";"])
        return [("sep", c)] + (self.b() if c else [])

    def literal_content(self, quote):
        r = self.r
        n = r.choice([0, 0, 1, 2, 5, 12])
        other = "'" if quote == '"' else '"'
        if self.split:
            other = "\\n"           # the content must not depend on the quote style chosen by the layout
        pool = ["a", "b", "Z", "0", "9", " ", "_", ".", "/", ":", "=", "{", "}", "<", ">", "[", "]", "(", ")", ",", ";",
                "#", "*", "//", "/*", "*/", other, "\\n", "\\\\", "\\'", '\\"', "json:", "$", "|", "&", "\t", "\n"]
        if self.exotic:
            pool += ["é", "→", "日本", "𝔘"]
        return "".join(r.choice(pool) for _ in range(n))

    def literal(self):
        """(tokens, canon)"""
        r = self.r
        q = "'" if self.mode == "minimal" else ('"' if self.mode == "maximal" else self.lr.choice("'\""))
        c = self.literal_content(q)
        return [("lit", q + c + q)], lit_canon(c)

    def int_value(self):
        r = self.r
        k = r.random()
        if k < 0.5:
            return r.randrange(-20, 300)
        if k < 0.7:
            return r.choice([0, 1, -1, 127, 128, 255, 256, 32767, 32768, 65535, I32_MAX, I32_MAX + 1, -I32_MAX - 1,
                             I64_MAX, -I64_MAX, I64_MAX - 1, 10 ** 18, -10 ** 18])
        return r.randrange(-I64_MAX, I64_MAX + 1)

    def int_text(self, v):
        """a spelling of the integer v"""
        r = self.lr
        if not self.exotic or self.mode != "random" or r.random() < 0.7:
            return str(v)
        k = r.random()
        mag = abs(v)
        sign = "-" if v < 0 else ""
        if k < 0.4:
            return sign + "0x" + ("%x" % mag if r.random() < 0.5 else "%X" % mag)
        if k < 0.7:
            return sign + "0" * r.choice([1, 2, 5]) + str(mag)
        # an even number of extra minus signs
        return "--" + sign + str(mag)

    def double_text(self):
        r = self.r
        digs = lambda lo=1: "".join(r.choice("0123456789") for _ in range(r.choice([lo, lo, 2, 3, 7])))
        sign = r.choice(["", "", "-", "+", "-+"])
        exp = lambda: r.choice("eE") + r.choice(["", "-", "--"]) + r.choice([digs(), "0x" + r.choice("0123456789abcdefABCDEF") + r.choice(["", "f", "0"])])
        k = r.randrange(6)
        if k == 0:
            body = digs() + "." + digs()
        elif k == 1:
            body = digs() + "."
        elif k == 2:
            body = digs() + "." + digs() + exp()
        elif k == 3:
            body = digs() + "." + exp()
        elif k == 4:
            body = "." + digs() + r.choice(["", exp()])
        else:
            body = digs() + exp()
        return sign + body

    # ------------------------------------------------------------------ annotations, paths, types
    def path(self, forbid_first=()):
        r = self.r
        n = r.choice([1, 1, 1, 2, 2, 3])
        segs = [self.ident(forbid_first)] + [self.ident() for _ in range(n - 1)]
        toks = [("id", segs[0])]
        for s in segs[1:]:
            toks += self.b() + [("punct", ".")] + self.b() + [("id", s)]
        return toks, ".".join(segs)

    def annotations(self, lo=1):
        """non-empty annotation list '(k = "v", ...)'"""
        r = self.r
        n = r.choice([lo, 1, 1, 2, 3])
        n = max(n, 1)
        toks = [("punct", "(")]
        cs = []
        for j in range(n):
            key = r.choice(["pilota.name", "pilota.rust_type", "pilota.rust_wrapper_arc", "go.tag", "api.query", "a", "_k", "x.y.z",
                            "cpp.type", "java.final", "k9_", "a..b", "a."]) if r.random() < 0.7 else self.ident().replace("-", "_")
            lt, lc = self.literal()
            toks += self.b() + [("id", key)] + self.b() + [("punct", "=")] + self.b() + lt + self.b() + self.sep()
            cs.append(key + "=" + lc)
        toks += [("punct", ")")]
        return toks, "[" + " ".join(cs) + "]"

    def opt_annotations(self, p=0.25):
        if self.r.random() < p:
            return self.annotations()
        return [], "[]"

    def cpp_type(self):
        lt, lc = self.literal()
        return [("kw", "cpp_type")] + self.B() + lt, lc

    def ty(self, depth):
        """(tokens, canon of Ty)"""
        r = self.r
        k = r.random()
        if depth <= 0 or k < 0.45:
            if r.random() < 0.6:
                t = r.choice(BASE_TYPES)
                return [("kw", t)], t
            pt, pc = self.path(forbid_first=BASE_TYPES)
            return pt, "(path " + pc + ")"
        kind = r.choice(["list", "set", "map"])
        has_cpp = r.random() < 0.15
        cpp_t, cpp_c = self.cpp_type() if has_cpp else ([], "-")
        if kind == "list":
            it, ic = self.type_(depth - 1)
            toks = [("kw", "list")] + self.b() + [("punct", "<")] + self.b() + it + self.b() + [("punct", ">")]
            if has_cpp:
                toks += self.B() + cpp_t
            return toks, "(list %s %s)" % (ic, cpp_c)
        if kind == "set":
            it, ic = self.type_(depth - 1)
            toks = [("kw", "set")] + ((self.B() + cpp_t) if has_cpp else []) + self.b() + [("punct", "<")] + self.b() + it + self.b() + [("punct", ">")]
            return toks, "(set %s %s)" % (ic, cpp_c)
        kt, kc = self.type_(depth - 1)
        vt, vc = self.type_(depth - 1)
        toks = [("kw", "map")] + ((self.B() + cpp_t) if has_cpp else []) + self.b() + [("punct", "<")] + self.b() + kt + self.b() + \
            self.sep(mandatory=True) + vt + self.b() + [("punct", ">")]
        return toks, "(map %s %s %s)" % (kc, vc, cpp_c)

    def type_(self, depth, ann_p=0.12):
        tt, tc = self.ty(depth)
        if self.r.random() < ann_p:
            at, ac = self.annotations()
            return tt + self.b() + at, "(type %s %s)" % (tc, ac)
        return tt, "(type %s [])" % tc

    def nested_type(self, n):
        """list<list<...<i32>...>> nested n deep (for C16)"""
        r = self.r
        toks, c = [("kw", "i32")], "(type i32 [])"
        for _ in range(n):
            k = r.choice(["list", "set", "map"])
            if k == "map":
                toks = [("kw", "map"), ("punct", "<"), ("kw", "i8"), ("sep", ",")] + toks + [("punct", ">")]
                c = "(type (map (type i8 []) %s -) [])" % c
            else:
                toks = [("kw", k), ("punct", "<")] + toks + [("punct", ">")]
                c = "(type (%s %s -) [])" % (k, c)
        return toks, c

    # ------------------------------------------------------------------ constants
    def const_value(self, depth):
        r = self.r
        k = r.random()
        if depth <= 0 or k < 0.7:
            j = r.randrange(6)
            if j == 0:
                lt, lc = self.literal()
                return lt, "(str %s)" % lc
            if j == 1:
                b = r.choice(["true", "false"])
                return [("kw", b)], "(bool %s)" % b
            if j == 2:
                pt, pc = self.path(forbid_first=["true", "false"])
                return pt, "(path %s)" % pc
            if j == 3:
                d = self.double_text()
                return [("dbl", d)], "(double %s)" % lit_canon(d)
            v = self.int_value()
            return [("num", self.int_text(v))], "(int %d)" % v
        n = r.choice([0, 1, 2, 3, 5])
        if r.random() < 0.5:
            toks = [("punct", "[")]
            cs = []
            for _ in range(n):
                et, ec = self.const_value(depth - 1)
                toks += self.b() + et + self.b() + self.sep()
                cs.append(ec)
            toks += self.b() + [("punct", "]")]
            return toks, "(list" + "".join(" " + c for c in cs) + ")"
        toks = [("punct", "{")]
        cs = []
        for _ in range(n):
            kt, kc = self.const_value(depth - 1)
            vt, vc = self.const_value(depth - 1)
            toks += self.b() + kt + self.b() + [("punct", ":")] + self.b() + vt + self.b() + self.sep()
            cs.append("(%s %s)" % (kc, vc))
        toks += self.b() + [("punct", "}")]
        return toks, "(map" + "".join(" " + c for c in cs) + ")"

    def nested_const(self, n):
        r = self.r
        toks, c = [("num", "1")], "(int 1)"
        for _ in range(n):
            if r.random() < 0.5:
                toks = [("punct", "[")] + toks + [("punct", "]")]
                c = "(list %s)" % c
            else:
                toks = [("punct", "{"), ("num", "0"), ("punct", ":")] + toks + [("punct", "}")]
                c = "(map ((int 0) %s))" % c
        return toks, c

    # ------------------------------------------------------------------ fields
    def field(self, fid, in_args=False, depth=None):
        r = self.r
        depth = self.max_depth if depth is None else depth
        attr = r.choice(["required", "optional", "default"])
        idtxt = str(fid) if (self.mode != "random" or self.lr.random() < 0.9) else "0" * self.lr.choice([1, 3]) + str(fid)
        toks = [("num", idtxt)] + self.b() + [("punct", ":")] + self.b()
        if attr != "default":
            toks += [("kw", attr)] + self.b()
        # a default-attribute field whose type is a path must not start with the word required/optional
        for _ in range(20):
            tt, tc = self.type_(depth)
            if attr == "default" and tt[0][0] == "id" and tt[0][1] in ("required", "optional"):
                continue
            break
        name = self.ident()
        toks += tt + self.b() + [("id", name)] + self.b()
        dc = "-"
        if r.random() < 0.3:
            vt, vc = self.const_value(2)
            toks += [("punct", "=")] + self.b() + vt + self.b()
            dc = vc
        at, ac = self.opt_annotations(0.2)
        toks += at + (self.b() if at else []) + self.sep()
        cattr = attr
        if in_args and attr == "default":
            cattr = "required"       # Function::parse turns Default arguments into Required
        return toks, "(field %d %s %s %s %s %s)" % (fid, cattr, tc, name, dc, ac)

    def field_ids(self, n):
        r = self.r
        ids = set()
        while len(ids) < n:
            k = r.random()
            ids.add(r.randrange(1, 40) if k < 0.7 else (r.randrange(1, 32768) if k < 0.95 else r.choice([0, I32_MAX, 65536, 32767])))
        ids = list(ids)
        r.shuffle(ids)
        return ids

    def fields(self, n, in_args=False):
        toks, cs = [], []
        for fid in self.field_ids(n):
            ft, fc = self.field(fid, in_args)
            toks += self.b() + ft
            cs.append(fc)
        return toks, "(" + " ".join(cs) + ")"

    # ------------------------------------------------------------------ items
    def struct_like(self, kw):
        r = self.r
        name = self.ident()
        n = r.choice([0, 1, 2, 3, 5, 8, 12]) if kw != "union" else r.choice([1, 2, 3, 6])
        ft, fc = self.fields(n)
        toks = [("kw", kw)] + self.B() + [("id", name)] + self.b() + [("punct", "{")] + ft + self.b() + [("punct", "}")] + self.b()
        at, ac = self.opt_annotations(0.15)
        toks += at + self.sep()
        return toks, "(%s %s %s %s)" % (kw, name, fc, ac)

    def enum(self):
        r = self.r
        name = self.ident()
        n = r.choice([0, 1, 2, 3, 5, 8])
        toks = [("kw", "enum")] + self.B() + [("id", name)] + self.b() + [("punct", "{")] + self.b()
        cs = []
        for _ in range(n):
            vn = self.ident()
            toks += [("id", vn)] + self.b()
            vc = "-"
            if r.random() < 0.6:
                v = self.int_value() if r.random() < 0.3 else r.randrange(-5, 100)
                toks += [("punct", "=")] + self.b() + [("num", self.int_text(v))] + self.b()
                vc = str(v)
            at, ac = self.opt_annotations(0.15)
            # no blank slot between annotations and the separator
            s = self.sep()
            toks += at + (s if s[0][1] else self.b())
            cs.append("(ev %s %s %s)" % (vn, vc, ac))
        toks += [("punct", "}")] + self.b()
        at, ac = self.opt_annotations(0.15)
        toks += at
        return toks, "(enum %s (%s) %s)" % (name, " ".join(cs), ac)

    def typedef(self):
        tt, tc = self.type_(self.max_depth)
        name = self.ident()
        at, ac = self.opt_annotations(0.2)
        toks = [("kw", "typedef")] + self.B() + tt + self.B() + [("id", name)] + self.b() + at + self.sep()
        return toks, "(typedef %s %s %s)" % (tc, name, ac)

    def constant(self, deep=None):
        tt, tc = self.type_(self.max_depth)
        name = self.ident()
        vt, vc = self.const_value(3) if deep is None else self.nested_const(deep)
        at, ac = self.opt_annotations(0.2)
        toks = [("kw", "const")] + self.B() + tt + self.B() + [("id", name)] + self.b() + [("punct", "=")] + self.b() + vt + self.b() + at + self.sep()
        return toks, "(const %s %s %s %s)" % (name, tc, vc, ac)

    def namespace(self):
        r = self.r
        sc = r.choice(SCOPES) if r.random() < 0.6 else "rs"
        pt, pc = self.path()
        toks = [("kw", "namespace")] + self.B() + [("kw", sc)] + self.B() + pt + self.b()
        ac = "-"
        if r.random() < 0.15:
            at, ac = self.annotations()
            toks += at + self.b()
        toks += self.sep()
        return toks, "(namespace %s %s %s)" % (sc, pc, ac), (sc, pc)

    def include(self, kw="include"):
        lt, lc = self.literal()
        return [("kw", kw)] + self.B() + lt + self.sep(), "(%s %s)" % (kw, lc)

    def function(self):
        r = self.r
        oneway = r.random() < 0.2
        toks = []
        if oneway:
            toks += [("kw", "oneway")] + self.B()
        for _ in range(20):
            tt, tc = self.type_(2) if r.random() < 0.7 else ([("kw", "void")], "(type void [])")
            if not oneway and r.random() < 0.06:
                # a result type whose first word is oneway / throws (legal: oneway.x, oneway(a='b'), throws ...)
                pt, pc = self.path()
                pt[0] = ("id", r.choice(["oneway", "throws"]))
                pc = pt[0][1] + pc[pc.index("."):] if "." in pc else pt[0][1]
                tt, tc = pt, "(type (path %s) [])" % pc
                if r.random() < 0.4:
                    at0, ac0 = self.annotations()
                    tt, tc = pt + self.b() + at0, "(type (path %s) %s)" % (pc, ac0)
            if not oneway and tt[0] == ("id", "oneway"):
                # the word oneway followed by a blank is the keyword: the slot after the word must stay empty, and
                # something other than the function name must follow it ('.' of the path or '(' of the annotations)
                if len(tt) < 2 or tt[1][0] != "oblank":
                    continue
                tt = [tt[0]] + tt[2:]
            break
        name = self.ident()
        toks += tt + self.B() + [("id", name)] + self.b() + [("punct", "(")]
        at_, ac_ = self.fields(r.choice([0, 0, 1, 2, 4]), in_args=True)
        toks += at_ + self.b() + [("punct", ")")] + self.b()
        thc = "()"
        if r.random() < 0.3:
            tht, thc = self.fields(r.choice([1, 1, 2]))
            toks += [("kw", "throws")] + self.b() + [("punct", "(")] + tht + self.b() + [("punct", ")")] + self.b()
        at, ac = self.opt_annotations(0.15)
        toks += at + self.sep()
        return toks, "(fn %s %s %s %s %s %s)" % (name, "oneway" if oneway else "twoway", tc, ac_, thc, ac)

    def service(self):
        r = self.r
        name = self.ident()
        toks = [("kw", "service")] + self.B() + [("id", name)]
        ec = "-"
        if r.random() < 0.3:
            pt, ec = self.path()
            toks += self.B() + [("kw", "extends")] + self.B() + pt
        toks += self.b() + [("punct", "{")]
        cs = []
        for _ in range(r.choice([0, 1, 2, 3, 6])):
            ft, fc = self.function()
            toks += self.b() + ft
            cs.append(fc)
        toks += self.b() + [("punct", "}")] + self.b()
        at, ac = self.opt_annotations(0.15)
        toks += at + self.sep()
        return toks, "(service %s %s (%s) %s)" % (name, ec, " ".join(cs), ac)

    def item(self):
        r = self.r
        k = r.choice(["include", "cpp_include", "namespace", "typedef", "typedef", "const", "const", "enum", "enum",
                      "struct", "struct", "struct", "union", "exception", "service", "service"])
        if k in ("include", "cpp_include"):
            return self.include(k) + (None,)
        if k == "namespace":
            return self.namespace()
        if k == "typedef":
            return self.typedef() + (None,)
        if k == "const":
            return self.constant() + (None,)
        if k == "enum":
            return self.enum() + (None,)
        if k in ("struct", "union", "exception"):
            return self.struct_like(k) + (None,)
        return self.service() + (None,)

    def document(self, n_items=None):
        """(tokens, canon) of a whole file"""
        r = self.r
        n = r.choice([0, 1, 1, 2, 3, 4, 6, 10]) if n_items is None else n_items
        toks, cs = [], []
        pkg = "-"
        if n > 0:
            toks += self.b()
        elif r.random() < 0.6:
            toks += self.B()        # a document that consists of a blank only (white space, comments; /repo 25b7876)
        for _ in range(n):
            it, ic, ns = self.item()
            toks += it + self.b()
            cs.append(ic)
            if ns is not None and ns[0] == "rs" and pkg == "-":
                pkg = ns[1]
        return toks, "(file %s%s)" % (pkg, "".join(" " + c for c in cs))

    # ------------------------------------------------------------------ layout
    def finish(self, toks):
        """fill the blank slots; returns the final token list [(kind, text)] (no empty tokens)"""
        # 1. merge adjacent blank slots (two optional blanks in a row are one slot for the parser)
        merged = []
        for k, t in toks:
            if k == "sep" and t == "":
                continue
            if k in ("blank", "oblank") and merged and merged[-1][0] in ("blank", "oblank"):
                if k == "blank":
                    merged[-1] = ("blank", None)
                continue
            merged.append((k, t))
        # 2. fill the slots from the END of the text, so that the text that follows a slot is known when the slot is
        #    filled: an empty optional blank is repaired (one space) exactly when the token before it would be
        #    continued by what follows (touch_ok: the longest-match rule of words and numbers).  Values that may touch
        #    do touch in the minimal layout: [5x], true.5, A=5B, const i8 c=5struct S{}.
        TOUCH = {"kw": "word", "id": "word", "num": "int", "dbl": "dbl"}
        out = []
        following = ""
        n = len(merged)
        for i in range(n - 1, -1, -1):
            k, t = merged[i]
            if k in ("blank", "oblank"):
                txt = self.blank_text(k == "blank")
                if txt == "" and i > 0:
                    pk, pt = merged[i - 1]
                    if not touch_ok(TOUCH.get(pk), pt, following):
                        txt = " "
                    elif pk in TOUCH and following[:1] and (following[0] in _WORDCH or following[0] == "."):
                        TOUCH_STATS["doc token touches the next token"] += 1
                if txt:
                    out.append(("blank", txt))
                following = txt + following
            else:
                out.append((k, t))
                following = t + following
        out.reverse()
        # a text that ends with a blank slot may end with a line comment that runs to the END OF INPUT (no newline):
        # the grammar demands the newline only when something follows the comment
        if merged and merged[-1][0] in ("blank", "oblank") and self.lr.random() < self.p_tail:
            tail = self.lr.choice(["//", "#"]) + self.comment_text(["\n"])
            if out and out[-1][0] == "blank":
                out[-1] = ("blank", out[-1][1] + tail)
            else:
                out.append(("blank", tail))
        return out


def text_of(toks):
    return "".join(t for _, t in toks)


def gen_document(rng, mode="random", **kw):
    g = Gen(rng, mode, **kw)
    toks, canon = g.document()
    toks = g.finish(toks)
    return toks, canon


# ---------------------------------------------------------------------- malformed inputs (C16)

def random_utf8(rng, n):
    pools = [
        " \t\n\r",
        "abcdefghijklmnopqrstuvwxyzABCDEFGHIJKLMNOPQRSTUVWXYZ_0123456789",
        "{}()<>[],;:=.-+*/#'\"\\",
        "éß→日本語𝔘  ́٣",
    ]
    words = KEYWORDS + PREFIXED + ["0x", "1e5", "//", "/*", "*/", "1:", "= ", "'a'", '"b"']
    out = []
    ln = 0
    while ln < n:
        k = rng.random()
        if k < 0.35:
            s = rng.choice(words)
        elif k < 0.5:
            s = chr(rng.choice([rng.randrange(1, 0x80), rng.randrange(0x80, 0x800), rng.randrange(0x800, 0xD800),
                                rng.randrange(0xE000, 0x10000), rng.randrange(0x10000, 0x110000)]))
        else:
            s = rng.choice(rng.choice(pools))
        out.append(s)
        ln += len(s.encode("utf-8"))
    return "".join(out)


MUTATIONS = ["delete", "duplicate", "replace", "inflate11", "inflate20", "inflate40", "unterminate_comment",
             "unterminate_string", "swap", "truncate", "insert_junk", "case"]


def mutate(rng, toks, kind=None):
    """single-token mutation of a finished token list; returns (text, description)"""
    toks = list(toks)
    if not toks:
        return "", "empty"
    kind = kind or rng.choice(MUTATIONS)
    idx = rng.randrange(len(toks))
    if kind == "delete":
        del toks[idx]
    elif kind == "duplicate":
        toks.insert(idx, toks[idx])
    elif kind == "replace":
        pool = KEYWORDS + PREFIXED + list("{}()<>[],;:=.-+*/#'\"\\") + ["0", "1", "99999999999", "0x", "1.", ".5", "1e", "é", "'", '"', "/*", "//"]
        toks[idx] = ("x", rng.choice(pool))
    elif kind.startswith("inflate"):
        n = int(kind[7:])
        nums = [i for i, (k, _) in enumerate(toks) if k in ("num", "dbl")]
        if not nums:
            toks.insert(idx, ("num", "9" * n))
        else:
            i = rng.choice(nums)
            d = rng.choice("123456789") + "".join(rng.choice("0123456789") for _ in range(n - 1))
            old = toks[i][1]
            new = ("-" if old.startswith("-") else "") + (("0x" + d) if "0x" in old and rng.random() < 0.5 else d)
            toks[i] = ("num", new)
    elif kind == "unterminate_comment":
        bl = [i for i, (k, t) in enumerate(toks) if k == "blank"]
        i = rng.choice(bl) if bl else idx
        toks[i] = ("blank", toks[i][1] + "/* never closed ")
    elif kind == "unterminate_string":
        ls = [i for i, (k, _) in enumerate(toks) if k == "lit"]
        if ls:
            i = rng.choice(ls)
            toks[i] = ("lit", toks[i][1][:-1] if rng.random() < 0.7 else toks[i][1][:-1] + "\\")
        else:
            toks.insert(idx, ("lit", "'open"))
    elif kind == "swap":
        j = rng.randrange(len(toks))
        toks[idx], toks[j] = toks[j], toks[idx]
    elif kind == "truncate":
        t = text_of(toks)
        b = t.encode("utf-8")[:rng.randrange(len(t.encode("utf-8")) + 1)]
        return b.decode("utf-8", "ignore"), "truncate"
    elif kind == "insert_junk":
        toks.insert(idx, ("x", random_utf8(rng, rng.choice([1, 2, 5]))))
    elif kind == "case":
        k, t = toks[idx]
        toks[idx] = (k, t.swapcase())
    return text_of(toks), kind


def hx(s):
    b = s.encode("utf-8") if isinstance(s, str) else s
    return b.hex() if b else "-"


# ---------------------------------------------------------------------- printer tie (C15)
# Concrete syntax trees of types in the shape of fam/idl/coq/Print.v (a layout = the tree with the blank / separator /
# quote choice at every slot), serialized for the model runner's `print-type` entry, with the text printed HERE by
# plain string concatenation (independently of the Coq printer) and the canonical tree of the erased type.

def _hx(b):
    return b.hex() if b else "-"


def cst_blank(rng, mandatory=False, p_empty=0.4):
    """(serialized, text) of a blank in the normal form Print.v demands: maximal white-space runs, a line comment is
    followed by a white-space run that begins with the newline"""
    if not mandatory and rng.random() < p_empty:
        return "b0", ""
    atoms = []
    n = rng.choice([1, 1, 2, 3, 5])
    prev = None
    while len(atoms) < n or prev in ("l", "h"):
        kinds = ["w", "l", "h", "k"] if prev != "w" else ["l", "h", "k"]
        if prev in ("l", "h"):
            kinds = ["w"]
        k = rng.choice(kinds)
        if k == "w":
            ws = "".join(rng.choice(" \t\r\n") for _ in range(rng.choice([1, 1, 2, 4])))
            if prev in ("l", "h"):
                ws = "\n" + ws[1:]
            atoms.append(("w", ws))
        elif k in ("l", "h"):
            body = "".join(rng.choice(["a", " ", "*", "/", "#", "'", '"', "<", ">", "é", "\t", "list", "//", "/*", "*/"]) for _ in range(rng.choice([0, 1, 4, 9])))
            atoms.append((k, body))
        else:
            body = "".join(rng.choice(["a", " ", "*", "/ ", "#", "'", '"', "<", ">", "é", "\n", "*", "**", "//", "/*"]) for _ in range(rng.choice([0, 1, 4, 9])))
            while "*/" in body:
                body = body.replace("*/", "* /")
            atoms.append(("k", body))
        prev = k
    ser = "b%d" % len(atoms) + "".join(" %s%s" % (k, _hx(t.encode("utf-8"))) for k, t in atoms)
    text = "".join(t if k == "w" else ("//" + t if k == "l" else ("#" + t if k == "h" else "/*" + t + "*/")) for k, t in atoms)
    return ser, text


def cst_lit(rng):
    dq = rng.random() < 0.5
    q = '"' if dq else "'"
    other = "'" if dq else '"'
    body = "".join(rng.choice(["a", "Z", "0", " ", "<", ">", "#", "//", "/*", other, "\\n", "\\\\", "\\'", '\\"', "é", "\n"])
                   for _ in range(rng.choice([0, 0, 1, 3, 8])))
    return ("Q" if dq else "q") + _hx(body.encode("utf-8")), q + body + q, lit_canon(body)


def cst_sep(rng):
    k = rng.choice(["0", "0", ",", ";"])
    if k == "0":
        return "s0", ""
    bs, bt = cst_blank(rng)
    return "s%s %s" % (k, bs), k + bt


def cst_ident(rng, forbid=()):
    g = Gen(rng)
    return g.ident(forbid)


def cst_path(rng, forbid_first=()):
    h = cst_ident(rng, forbid_first)
    n = rng.choice([0, 0, 0, 1, 2])
    ser, text, canon = _hx(h.encode()), h, h
    ser = "i" + ser
    parts = []
    for _ in range(n):
        b1s, b1t = cst_blank(rng, p_empty=0.6)
        b2s, b2t = cst_blank(rng, p_empty=0.6)
        s = cst_ident(rng)
        parts.append("%s %s i%s" % (b1s, b2s, _hx(s.encode())))
        text += b1t + "." + b2t + s
        canon += "." + s
    return "%s p%d%s" % (ser, n, "".join(" " + p for p in parts)), text, canon


def cst_anns(rng):
    n = rng.choice([1, 1, 2, 3])
    sers, text, canon = [], "(", []
    for j in range(n):
        b1s, b1t = cst_blank(rng) if j == 0 else ("b0", "")
        key = rng.choice(["pilota.name", "a", "_k", "x.y.z", "a..b", "a.", "go.tag", "k9_"])
        b2s, b2t = cst_blank(rng)
        b3s, b3t = cst_blank(rng)
        ls, lt, lc = cst_lit(rng)
        b4s, b4t = cst_blank(rng)
        ss, st = cst_sep(rng)
        sers.append("%s i%s %s %s %s %s %s" % (b1s, _hx(key.encode()), b2s, b3s, ls, b4s, ss))
        text += b1t + key + b2t + "=" + b3t + lt + b4t + st
        canon.append(key + "=" + lc)
    return "n%d %s" % (n, " ".join(sers)), text + ")", "[" + " ".join(canon) + "]"


def cst_cpp(rng, p=0.15):
    if rng.random() >= p:
        return "c0", "", "-"
    b1s, b1t = cst_blank(rng, mandatory=True)
    b2s, b2t = cst_blank(rng, mandatory=True)
    ls, lt, lc = cst_lit(rng)
    return "c1 %s %s %s" % (b1s, b2s, ls), b1t + "cpp_type" + b2t + lt, lc


def cst_ty(rng, depth, simple):
    """(serialized, text, canon, ends_word)"""
    if depth <= 0 or rng.random() < 0.4:
        if rng.random() < 0.5:
            b = rng.choice(BASE_TYPES)
            return "base " + b, b, b, True
        # list / set / map are legal type names (nothing that can follow a type begins with '<')
        ps, pt, pc = cst_path(rng, forbid_first=BASE_TYPES)
        if pc.split(".")[0] in ("list", "set", "map"):
            TOUCH_STATS["cst type name list/set/map"] += 1
        return "path " + ps, pt, "(path %s)" % pc, True
    kind = rng.choice(["list", "set", "map"])
    cs, ct, cc = ("c0", "", "-") if simple else cst_cpp(rng)
    b1s, b1t = cst_blank(rng)
    b2s, b2t = cst_blank(rng)
    ins, it, ic, _ = cst_type(rng, depth - 1, simple)
    b3s, b3t = cst_blank(rng)
    if kind == "list":
        return ("list %s %s %s %s %s" % (b1s, b2s, ins, b3s, cs), "list" + b1t + "<" + b2t + it + b3t + ">" + ct,
                "(list %s %s)" % (ic, cc), ct == "" and False)
    if kind == "set":
        return ("set %s %s %s %s %s" % (cs, b1s, b2s, ins, b3s), "set" + ct + b1t + "<" + b2t + it + b3t + ">",
                "(set %s %s)" % (ic, cc), False)
    semi = rng.random() < 0.5
    b4s, b4t = cst_blank(rng)
    vs, vt, vc, _ = cst_type(rng, depth - 1, simple)
    b5s, b5t = cst_blank(rng)
    return ("map %s %s %s %s %s %s %s %s %s" % (cs, b1s, b2s, ins, b3s, ";" if semi else ",", b4s, vs, b5s),
            "map" + ct + b1t + "<" + b2t + it + b3t + (";" if semi else ",") + b4t + vt + b5t + ">",
            "(map %s %s %s)" % (ic, vc, cc), False)


def cst_type(rng, depth, simple):
    ts, tt, tc, ew = cst_ty(rng, depth, simple)
    if simple or rng.random() < 0.8:
        return "T %s N" % ts, tt, "(type %s [])" % tc, ew
    bs, bt = cst_blank(rng)
    as_, at, ac = cst_anns(rng)
    return "T %s A %s %s" % (ts, bs, as_), tt + bt + at, "(type %s %s)" % (tc, ac), False


def gen_cst_type(rng, depth, simple=None):
    """(serialized CST, text printed by Python, canonical tree of the erased type, simple?)"""
    simple = (rng.random() < 0.5) if simple is None else simple
    ser, text, canon, _ = cst_type(rng, depth, simple)
    return ser, text, canon, simple


# ---------------------------------------------------------------------- printer tie for whole files (C15)
# Concrete syntax trees of whole documents in the shape of fam/idl/coq/Print.v (cfile ... cfield, cconst, cint, cdbl),
# built in the normal form wf_file demands (a blank between two adjacent optional slots sits in the first one; a
# declaration that ends with a word is set off from a following word), serialized for the runner entry `print-file`,
# printed HERE by plain concatenation, with the canonical tree of the erased document.

TYPE_WORDS = BASE_TYPES + ["list", "set", "map"]


# how often the generators drew the layouts that became well-formed with C15_accepted_iff_printed (reported by c15.py)
from collections import Counter
TOUCH_STATS = Counter()


def const_touch_kind(v):
    """the kind of the last token of a constant value (a tuple of CstGen.const), for touch_ok"""
    c = v[2]
    if c.startswith("(bool") or c.startswith("(path"):
        return "word"
    if c.startswith("(double"):
        return "dbl"
    if c.startswith("(int"):
        return "int"
    return None


ITEM_KINDS = ["include", "cpp_include", "namespace", "typedef", "typedef", "const", "const", "enum", "struct", "struct",
              "union", "exception", "service"]


class CstGen:
    def __init__(self, rng, depth=2):
        self.r = rng
        self.depth = depth

    # ---- lexical
    def blank(self, mandatory=False, p_empty=0.45, eof=False):
        """(ser, text); eof: the blank may end with a line comment that runs to the end of input"""
        s, t = cst_blank(self.r, mandatory=mandatory, p_empty=p_empty)
        if eof and self.r.random() < 0.35:
            body = "".join(self.r.choice(["a", " ", "*", "/", "#", "é", "end", "//"]) for _ in range(self.r.choice([0, 1, 4])))
            kind = self.r.choice("lh")
            n = int(s.split(" ")[0][1:])
            atoms = s.split(" ")[1:]
            # a line comment must follow a white-space run or a block comment or nothing; after a line comment the
            # normal form has a white-space run beginning with the newline, after which another comment is fine
            s = "b%d" % (n + 1) + "".join(" " + a for a in atoms) + " %s%s" % (kind, _hx(body.encode("utf-8")))
            t = t + ("//" if kind == "l" else "#") + body
        return s, t

    def ident(self, forbid=()):
        return cst_ident(self.r, forbid)

    def path(self, forbid_first=()):
        return cst_path(self.r, forbid_first)

    def oanns(self, p=0.25):
        if self.r.random() >= p:
            return "N", "", "[]", False
        s, t, c = cst_anns(self.r)
        return "A " + s, t, c, True

    def sep(self, eof=False, p_none=0.5):
        """(ser, text, present)"""
        if self.r.random() < p_none:
            return "s0", "", False
        k = self.r.choice(",;")
        bs, bt = self.blank(eof=eof)
        return "s%s %s" % (k, bs), k + bt, True

    def tail(self, eof, ends_word, last):
        """[blank] [annotations] [separator]; returns (ser, text, canon_anns, open, bare)"""
        as_, at, ac, has = self.oanns()
        ss, st, sp = self.sep(eof=eof)
        bare_rest = not has and not sp
        # a bare tail after a word, with something following, needs a blank
        need = bare_rest and ends_word and not last
        bs, bt = self.blank(mandatory=need, eof=eof and bare_rest)
        is_open = sp or not has
        return "%s %s %s" % (bs, as_, ss), bt + at + st, ac, is_open, (bare_rest and bt == "")

    # ---- numbers
    def cint(self):
        r = self.r
        minus = r.choice([0, 0, 0, 1, 1, 2, 3])
        hexa = r.random() < 0.3
        k = r.random()
        if k < 0.6:
            v = r.randrange(0, 300)
        elif k < 0.8:
            v = r.choice([0, 1, 127, 255, 65535, I32_MAX, I32_MAX + 1, I64_MAX, I64_MAX - 1, 10 ** 18])
        else:
            v = r.randrange(0, I64_MAX + 1)
        if hexa:
            d = ("%x" % v) if r.random() < 0.5 else ("%X" % v)
        else:
            d = str(v)
        if r.random() < 0.2:
            d = "0" * r.choice([1, 2, 5]) + d
        val = -v if minus % 2 else v
        return "I %d %s i%s" % (minus, "h" if hexa else "d", _hx(d.encode())), "-" * minus + ("0x" if hexa else "") + d, val

    def digits(self, lo=1):
        r = self.r
        return "".join(r.choice("0123456789") for _ in range(r.choice([lo, lo, 1, 2, 3, 7])))

    def cexp(self):
        s, t, _ = self.cint()
        u = self.r.random() < 0.5
        return "%s %s" % ("E" if u else "e", s), ("E" if u else "e") + t

    def oexp(self):
        if self.r.random() < 0.5:
            return "x0", ""
        s, t = self.cexp()
        return "x1 " + s, t

    def cdbl(self):
        """(ser, text, signed, form)"""
        r = self.r
        m, p = r.random() < 0.3, r.random() < 0.2
        form = r.choice("ABC")
        if form == "A":
            ip, fp = self.digits(1), (self.digits(1) if r.random() < 0.7 else "")
            es, et = self.oexp()
            body_s, body_t = "A i%s i%s %s" % (_hx(ip.encode()), _hx(fp.encode()), es), ip + "." + fp + et
        elif form == "B":
            fp = self.digits(1)
            es, et = self.oexp()
            body_s, body_t = "B i%s %s" % (_hx(fp.encode()), es), "." + fp + et
        else:
            ip = self.digits(1)
            es, et = self.cexp()
            body_s, body_t = "C i%s %s" % (_hx(ip.encode()), es), ip + et
        return "D %d %d %s" % (m, p, body_s), ("-" if m else "") + ("+" if p else "") + body_t, (m or p), form

    # ---- constant values: (ser, text, canon, ends_word, starts_word, starts_dot, is_path)
    def const(self, depth):
        r = self.r
        k = r.random()
        if depth <= 0 or k < 0.65:
            j = r.randrange(5)
            if j == 0:
                ls, lt, lc = cst_lit(r)
                return "CL " + ls, lt, "(str %s)" % lc, False, False, False, False
            if j == 1:
                b = r.random() < 0.5
                return ("CB1" if b else "CB0"), ("true" if b else "false"), "(bool %s)" % ("true" if b else "false"), True, True, False, False
            if j == 2:
                ps, pt, pc = self.path(forbid_first=["true", "false"])
                return "CP " + ps, pt, "(path %s)" % pc, True, True, False, True
            if j == 3:
                ds, dt, signed, form = self.cdbl()
                return "C" + ds, dt, "(double %s)" % lit_canon(dt), True, not signed, (not signed and form == "B"), False
            is_, it, iv = self.cint()
            return "C" + is_, it, "(int %d)" % iv, True, not it.startswith("-"), False, False
        n = r.choice([0, 1, 2, 3, 5])
        is_map = r.random() < 0.5
        b0s, b0t = self.blank()
        els = []
        for _ in range(n):
            if is_map:
                key = self.const(depth - 1)
                b1s, b1t = self.blank()
                b2s, b2t = self.blank()
                v = self.const(depth - 1)
                els.append((key, b1s, b1t, b2s, b2t, v))
            else:
                els.append((None, None, None, None, None, self.const(depth - 1)))
        # the elements are laid out from the LAST one, so that the text that follows a value is known when its blank /
        # separator are chosen: without separator and blank the value must not be continued by what follows
        # (touch_ok, the mirror of Print.cont_ok) -- [5x], [true.5], [a.5], [1..5] are drawn, [5e5] is not
        ser, text, cs = [], "", []
        following = "}" if is_map else "]"
        for idx in range(len(els) - 1, -1, -1):
            key, b1s, b1t, b2s, b2t, v = els[idx]
            if r.random() < 0.45:
                kch = r.choice(",;")
                sbs, sbt = self.blank()
                ss, st = "s%s %s" % (kch, sbs), kch + sbt
                bs, bt = self.blank()
            else:
                ss, st = "s0", ""
                bs, bt = self.blank(mandatory=not touch_ok(const_touch_kind(v), v[1], following), p_empty=0.7)
                if bt == "" and v[3] and following[0] not in "]}":
                    TOUCH_STATS["cst value touches the next value"] += 1
            if is_map:
                ser.insert(0, "%s %s %s %s %s %s" % (key[0], b1s, b2s, v[0], bs, ss))
                el_text = key[1] + b1t + ":" + b2t + v[1] + bt + st
                cs.insert(0, "(%s %s)" % (key[2], v[2]))
            else:
                ser.insert(0, "%s %s %s" % (v[0], bs, ss))
                el_text = v[1] + bt + st
                cs.insert(0, v[2])
            following = el_text + following
        text = following[:-1]
        if is_map:
            return ("CMAP %s m%d%s" % (b0s, n, "".join(" " + x for x in ser)), "{" + b0t + text + "}",
                    "(map" + "".join(" " + c for c in cs) + ")", False, False, False, False)
        return ("CLIST %s m%d%s" % (b0s, n, "".join(" " + x for x in ser)), "[" + b0t + text + "]",
                "(list" + "".join(" " + c for c in cs) + ")", False, False, False, False)

    # ---- types
    def type_(self, forbid_head=()):
        """(ser, text, canon, ends_word)"""
        r = self.r
        for _ in range(50):
            ser, text, canon, ew = cst_type(r, r.choice([0, 0, 1, 2]), False)
            toks = ser.split(" ")
            if toks[1] == "path":
                head = bytes.fromhex(toks[2][1:]).decode()
                if head in forbid_head:
                    continue
            return ser, text, canon, ew
        return "T base i32 N", "i32", "(type i32 [])", True

    # ---- fields
    def field(self, fid, last, in_args=False):
        r = self.r
        idtxt = ("0" * r.choice([0, 0, 0, 1, 3])) + str(fid)
        b1s, b1t = self.blank(p_empty=0.7)
        b2s, b2t = self.blank()
        attr = r.choice(["required", "optional", None])
        if attr:
            abs_, abt = self.blank(mandatory=True)
            attr_s, attr_t = "a%s %s" % (attr[0], abs_), attr + abt
            ts, tt, tc, tew = self.type_()
        else:
            attr_s, attr_t = "a0", ""
            ts, tt, tc, tew = self.type_(forbid_head=["required", "optional"])
        b3s, b3t = self.blank(mandatory=tew)
        name = self.ident()
        has_def = r.random() < 0.3
        as_, at, ac, has_anns = self.oanns(0.2)
        ss, st, has_sep = self.sep()
        dc = "-"
        if has_def:
            b5s, b5t = self.blank()
            v = self.const(2)
            need = v[3] and not has_anns and not has_sep and not last
            b6s, b6t = self.blank(mandatory=need)
            b4s, b4t = self.blank()
            def_s, def_t = "d1 %s %s %s" % (b5s, v[0], b6s), "=" + b5t + v[1] + b6t
            dc = v[2]
        else:
            need = not has_anns and not has_sep and not last
            b4s, b4t = self.blank(mandatory=need)
            def_s, def_t = "d0", ""
        if has_anns:
            b7s, b7t = self.blank()
            an_s, an_t = "%s %s" % (as_, b7s), at + b7t
        else:
            an_s, an_t = "N", ""
        ser = "F i%s %s %s %s %s %s i%s %s %s %s %s" % (_hx(idtxt.encode()), b1s, b2s, attr_s, ts, b3s, _hx(name.encode()), b4s,
                                                          def_s, an_s, ss)
        text = idtxt + b1t + ":" + b2t + attr_t + tt + b3t + name + b4t + def_t + an_t + st
        cattr = attr or "default"
        if in_args and cattr == "default":
            cattr = "required"
        return ser, text, "(field %d %s %s %s %s %s)" % (fid, cattr, tc, name, dc, ac)

    def fields(self, n, in_args=False):
        g = Gen(self.r)
        ids = g.field_ids(n)
        sers, text, cs = [], "", []
        for i, fid in enumerate(ids):
            s, t, c = self.field(fid, i == n - 1, in_args)
            sers.append(s)
            text += t
            cs.append(c)
        return "f%d%s" % (n, "".join(" " + s for s in sers)), text, "(" + " ".join(cs) + ")"

    # ---- declarations: each returns (ser, text, canon, open, ends_word)
    def struct_like(self, eof, last):
        r = self.r
        name = self.ident()
        b1s, b1t = self.blank()
        b0s, b0t = self.blank()
        fs, ft, fc = self.fields(r.choice([0, 1, 2, 3, 5]))
        ts, tt, tac, is_open, bare = self.tail(eof, False, last)
        return ("i%s %s %s %s %s" % (_hx(name.encode()), b1s, b0s, fs, ts), name + b1t + "{" + b0t + ft + "}" + tt,
                "%s %s %s" % (name, fc, tac), is_open, False)

    def enum(self, eof, last):
        r = self.r
        b1s, b1t = self.blank(mandatory=True)
        name = self.ident()
        b2s, b2t = self.blank()
        b0s, b0t = self.blank()
        n = r.choice([0, 1, 2, 3, 5])
        sers, text, cs = [], "", []
        names = [self.ident() for _ in range(n)]
        for i in range(n):
            vn = names[i]
            has_val = r.random() < 0.6
            as_, at, ac, has_anns = self.oanns(0.2)
            ss, st, has_sep = self.sep()
            lastv = i == n - 1
            if has_val:
                vb1s, vb1t = self.blank()
                is_, it, iv = self.cint()
                # A=5B is A=5 and B: the blank is needed only if the next name would continue the number
                need = not has_anns and not has_sep and not lastv and not touch_ok("eint", it, names[i + 1])
                vb2s, vb2t = self.blank(mandatory=need, p_empty=0.7)
                if vb2t == "" and not has_anns and not has_sep and not lastv:
                    TOUCH_STATS["cst enum number touches the next name"] += 1
                e1s, e1t = self.blank()
                val_s, val_t, vc = "v1 %s %s %s" % (vb1s, is_, vb2s), "=" + vb1t + it + vb2t, str(iv)
            else:
                need = not has_anns and not has_sep and not lastv
                e1s, e1t = self.blank(mandatory=need)
                val_s, val_t, vc = "v0", "", "-"
            if has_anns and not has_sep:
                b4s, b4t = self.blank()
            else:
                b4s, b4t = "b0", ""
            sers.append("i%s %s %s %s %s %s" % (_hx(vn.encode()), e1s, val_s, as_, ss, b4s))
            text += vn + e1t + val_t + at + st + b4t
            cs.append("(ev %s %s %s)" % (vn, vc, ac))
        as_, at, ac, has_anns = self.oanns(0.2)
        b3s, b3t = self.blank(eof=eof and not has_anns)
        ser = "%s i%s %s %s e%d%s %s %s" % (b1s, _hx(name.encode()), b2s, b0s, n, "".join(" " + s for s in sers), b3s, as_)
        text = "enum" + b1t + name + b2t + "{" + b0t + text + "}" + b3t + at
        return ser, text, "(enum %s (%s) %s)" % (name, " ".join(cs), ac), not has_anns, False

    def function(self):
        """(ser, text, canon, closed)"""
        r = self.r
        oneway = r.random() < 0.2
        if oneway:
            obs, obt = self.blank(mandatory=True)
            ow_s, ow_t = "o1 " + obs, "oneway" + obt
            ts, tt, tc, tew = self.type_()
        else:
            ow_s, ow_t = "o0", ""
            # a result type may begin with the word throws; with the word oneway only if no blank follows the word
            ts, tt, tc, tew = self.type_(forbid_head=["oneway"])
            if r.random() < 0.08:
                head = r.choice(["oneway", "throws"])
                seg = self.ident()
                b2x, b2xt = self.blank(p_empty=0.6)
                if r.random() < 0.5 or head == "throws":
                    b1x, b1xt = ("b0", "") if head == "oneway" else self.blank(p_empty=0.6)
                    ts = "T path i%s p1 %s %s i%s N" % (_hx(head.encode()), b1x, b2x, _hx(seg.encode()))
                    tt, tc, tew = head + b1xt + "." + b2xt + seg, "(type (path %s.%s) [])" % (head, seg), True
                else:
                    as0, at0, ac0 = cst_anns(r)
                    ts = "T path i%s p0 A b0 %s" % (_hx(head.encode()), as0)
                    tt, tc, tew = head + at0, "(type (path %s) %s)" % (head, ac0), False
                TOUCH_STATS["cst result type begins with " + head] += 1
        b1s, b1t = self.blank(mandatory=True)
        name = self.ident()
        b2s, b2t = self.blank()
        b0s, b0t = self.blank()
        as_, at, ac_ = self.fields(r.choice([0, 0, 1, 2, 4]), in_args=True)
        b3s, b3t = self.blank()
        thc = "()"
        if r.random() < 0.3:
            t1s, t1t = self.blank()
            t0s, t0t = self.blank()
            fs, ft, thc = self.fields(r.choice([1, 1, 2]))
            t2s, t2t = self.blank()
            th_s, th_t = "t1 %s %s %s %s" % (t1s, t0s, fs, t2s), "throws" + t1t + "(" + t0t + ft + ")" + t2t
        else:
            th_s, th_t = "t0", ""
        ans, ant, anc, has_anns = self.oanns(0.2)
        ss, st, has_sep = self.sep()
        ser = "%s %s %s i%s %s %s %s %s %s %s %s" % (ow_s, ts, b1s, _hx(name.encode()), b2s, b0s, as_, b3s, th_s, ans, ss)
        text = ow_t + tt + b1t + name + b2t + "(" + b0t + at + ")" + b3t + th_t + ant + st
        canon = "(fn %s %s %s %s %s %s)" % (name, "oneway" if oneway else "twoway", tc, ac_, thc, anc)
        return ser, text, canon, (has_anns and not has_sep)

    def service(self, eof, last):
        r = self.r
        b1s, b1t = self.blank(mandatory=True)
        name = self.ident()
        ec = "-"
        if r.random() < 0.3:
            e1s, e1t = self.blank(mandatory=True)
            e2s, e2t = self.blank(mandatory=True)
            ps, pt, ec = self.path()
            ex_s, ex_t = "x1 %s %s %s" % (e1s, e2s, ps), e1t + "extends" + e2t + pt
        else:
            ex_s, ex_t = "x0", ""
        b2s, b2t = self.blank()
        n = r.choice([0, 1, 2, 3, 5])
        prev_closed = True
        sers, text, cs = [], "", []
        for _ in range(n):
            bs, bt = self.blank() if prev_closed else ("b0", "")
            fs, ft, fc, closed = self.function()
            sers.append("%s %s" % (bs, fs))
            text += bt + ft
            cs.append(fc)
            prev_closed = closed
        b3s, b3t = self.blank() if prev_closed else ("b0", "")
        ts, tt, tac, is_open, bare = self.tail(eof, False, last)
        ser = "%s i%s %s %s g%d%s %s %s" % (b1s, _hx(name.encode()), ex_s, b2s, n, "".join(" " + s for s in sers), b3s, ts)
        text = "service" + b1t + name + ex_t + b2t + "{" + text + b3t + "}" + tt
        return ser, text, "(service %s %s (%s) %s)" % (name, ec, " ".join(cs), tac), is_open, False

    def item(self, last, kind=None, next_kw=None):
        """(ser, text, canon, open, ends_word, rs_package or None); eof is decided by the caller through `last`:
        an item is at the end of input when it is the last one and ends in a blank slot (its trailing file-level blank
        is then empty) -- the generator passes eof=last to the slots and fixes the file-level blank afterwards"""
        r = self.r
        kind = kind or r.choice(ITEM_KINDS)
        eof = last
        pkg = None
        if kind in ("include", "cpp_include"):
            bs, bt = self.blank(mandatory=True)
            ls, lt, lc = cst_lit(r)
            ss, st, has_sep = self.sep(eof=eof)
            return "%s %s %s %s" % (kind, bs, ls, ss), kind + bt + lt + st, "(%s %s)" % (kind, lc), has_sep, False, None
        if kind == "namespace":
            b1s, b1t = self.blank(mandatory=True)
            sc = r.choice(SCOPES) if r.random() < 0.6 else "rs"
            b2s, b2t = self.blank(mandatory=True)
            ps, pt, pc = self.path()
            as_, at, ac, has_anns = self.oanns(0.2)
            ss, st, has_sep = self.sep(eof=eof)
            if has_anns:
                b3s, b3t = self.blank()
                b4s, b4t = self.blank(eof=eof and not has_sep)
                an_s, an_t, anc = "%s %s" % (as_, b4s), at + b4t, ac
                ew = False
            else:
                need = not has_sep and not last
                b3s, b3t = self.blank(mandatory=need, eof=eof and not has_sep)
                an_s, an_t, anc = "N", "", "-"
                ew = (not has_sep) and b3t == ""
            ser = "namespace %s i%s %s %s %s %s %s" % (b1s, _hx(sc.encode()), b2s, ps, b3s, an_s, ss)
            text = "namespace" + b1t + sc + b2t + pt + b3t + an_t + st
            return ser, text, "(namespace %s %s %s)" % (sc, pc, anc), True, ew, ((sc, pc) if sc == "rs" else None)
        if kind == "typedef":
            b1s, b1t = self.blank(mandatory=True)
            ts, tt, tc, tew = self.type_()
            b2s, b2t = self.blank(mandatory=True)
            name = self.ident()
            tls, tlt, tac, is_open, bare = self.tail(eof, True, last)
            return ("typedef %s %s %s i%s %s" % (b1s, ts, b2s, _hx(name.encode()), tls), "typedef" + b1t + tt + b2t + name + tlt,
                    "(typedef %s %s %s)" % (tc, name, tac), is_open, bare, None)
        if kind == "const":
            b1s, b1t = self.blank(mandatory=True)
            ts, tt, tc, tew = self.type_()
            b2s, b2t = self.blank(mandatory=True)
            name = self.ident()
            b3s, b3t = self.blank()
            b4s, b4t = self.blank()
            v = self.const(self.depth)
            # const i8 c = 5struct S{} is two items: after a value the blank is needed only if the keyword of the next
            # item would continue it
            touches = next_kw is not None and touch_ok(const_touch_kind(v), v[1], next_kw + " ")
            tls, tlt, tac, is_open, bare = self.tail(eof, v[3] and not touches, last)
            if touches and v[3] and tlt == "":
                TOUCH_STATS["cst constant touches the next item"] += 1
            ser = "const %s %s %s i%s %s %s %s %s" % (b1s, ts, b2s, _hx(name.encode()), b3s, b4s, v[0], tls)
            text = "const" + b1t + tt + b2t + name + b3t + "=" + b4t + v[1] + tlt
            return ser, text, "(const %s %s %s %s)" % (name, tc, v[2], tac), is_open, (v[3] and bare), None
        if kind == "enum":
            s, t, c, is_open, ew = self.enum(eof, last)
            return "enum " + s, t, c, is_open, ew, None
        if kind in ("struct", "union", "exception"):
            bs, bt = self.blank(mandatory=True)
            s, t, c, is_open, ew = self.struct_like(eof, last)
            return "%s %s %s" % (kind, bs, s), kind + bt + t, "(%s %s)" % (kind, c), is_open, ew, None
        s, t, c, is_open, ew = self.service(eof, last)
        return "service " + s, t, c, is_open, ew, None

    def file(self):
        r = self.r
        n = r.choice([0, 1, 1, 2, 3, 4, 6])
        if n == 0:
            # a document without declarations: any blank, possibly ending with an unterminated line comment
            b0s, b0t = self.blank(eof=True)
            return "%s m0" % b0s, b0t, "(file -)"
        b0s, b0t = self.blank()
        sers, text, cs = [], "", []
        pkg = "-"
        kinds = [r.choice(ITEM_KINDS) for _ in range(n)]
        for i in range(n):
            last = i == n - 1
            s, t, c, is_open, ew, ns = self.item(last, kinds[i], None if last else kinds[i + 1])
            if is_open:
                bs, bt = "b0", ""
            else:
                bs, bt = self.blank(eof=last)
                # an item that ends with a token and is at the end of input was generated with eof=last for its own
                # slots; that is sound only if nothing follows it -- if a file-level blank follows, the item's slots
                # must be ordinary blanks.  Items that are not open have no trailing blank slot of their own, so the
                # flag was not used by them.
            sers.append("%s %s" % (s, bs))
            text += t + bt
            cs.append(c)
            if ns is not None and pkg == "-":
                pkg = ns[1]
        return "%s m%d%s" % (b0s, n, "".join(" " + s for s in sers)), b0t + text, "(file %s%s)" % (pkg, "".join(" " + c for c in cs))


def gen_cst_file(rng):
    """(serialized CST of a whole document, text printed by Python, canonical tree of the erased document)"""
    return CstGen(rng).file()
