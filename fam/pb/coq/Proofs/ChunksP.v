(* decode_varint does not depend on how the buffer is cut into chunks. *)
From PVPb Require Import Chunks Proofs.BitsP Proofs.VarintP.
From Coq Require Import Lia.
Open Scope Z_scope.

(* decode_varint is the only function of the protobuf runtime that looks at the chunk structure *)
Lemma chunk_readers_accounted : chunk_readers = accounted_chunk_readers.
Proof. reflexivity. Qed.

Lemma cb_get_u8_none cs : cb_get_u8 cs = None -> concat cs = [].
Proof.
  induction cs as [|c cs IH]; cbn [cb_get_u8 concat]; [reflexivity|]. destruct c as [|b c]; [|discriminate].
  intros H. rewrite (IH H). reflexivity.
Qed.

Lemma cb_get_u8_some cs b cs' : cb_get_u8 cs = Some (b, cs') -> concat cs = b :: concat cs'.
Proof.
  induction cs as [|c cs IH]; cbn [cb_get_u8 concat]; [discriminate|]. destruct c as [|b0 c].
  - intros H. cbn [app]. apply IH. exact H.
  - intros H. inversion H; subst. reflexivity.
Qed.

Lemma cb_advance_flat : forall n cs,
  match cb_advance n cs with
  | Some cs' => (n <= length (concat cs))%nat /\ concat cs' = skipn n (concat cs)
  | None => (length (concat cs) < n)%nat
  end.
Proof.
  induction n as [|n IH]; intros cs; cbn [cb_advance]; [split; [lia|reflexivity]|].
  destruct (cb_get_u8 cs) as [[b cs']|] eqn:E.
  - rewrite (cb_get_u8_some _ _ _ E). cbn [length skipn]. specialize (IH cs').
    destruct (cb_advance n cs') as [cs''|]; [destruct IH; split; [lia|assumption]|lia].
  - rewrite (cb_get_u8_none _ E). cbn [length]. lia.
Qed.

Lemma cb_chunk_prefix cs : exists rest, concat cs = cb_chunk cs ++ rest.
Proof.
  induction cs as [|c cs IH]; cbn [cb_chunk concat]; [exists []; reflexivity|].
  destruct c as [|b c]; [exact IH|]. exists (concat cs). reflexivity.
Qed.

Lemma cb_chunk_empty cs : cb_chunk cs = [] -> concat cs = [].
Proof.
  induction cs as [|c cs IH]; cbn [cb_chunk concat]; [reflexivity|]. destruct c as [|b c]; [exact IH|discriminate].
Qed.

Lemma firstn_chunk cs : firstn (length (cb_chunk cs)) (concat cs) = cb_chunk cs.
Proof.
  destruct (cb_chunk_prefix cs) as [rest E]. rewrite E at 1. rewrite firstn_app, Nat.sub_diag, firstn_all. cbn [firstn]. apply app_nil_r.
Qed.

Lemma cdv_slow_loop_flat : forall n count value cs,
  cres_flat (cdv_slow_loop n count value cs) = dv_slow_loop n count value (concat cs).
Proof.
  induction n as [|n IH]; intros count value cs; cbn [cdv_slow_loop dv_slow_loop]; [reflexivity|].
  destruct (cb_get_u8 cs) as [[b rest]|] eqn:E.
  - rewrite (cb_get_u8_some _ _ _ E). destruct (b2z b <=? dsl_last_le).
    + destruct ((count =? dsl_last_count) && (dsl_last_bound <=? b2z b)); reflexivity.
    + apply IH.
  - rewrite (cb_get_u8_none _ E). reflexivity.
Qed.

(* the chunk-list decoder is the flat-list model at the first chunk's length (Wire.decode_varint_chunk_b) ... *)
Lemma cdecode_varint_chunk cs :
  cres_flat (cdecode_varint cs) = decode_varint_chunk_b (length (cb_chunk cs)) (concat cs).
Proof.
  unfold cdecode_varint, decode_varint_chunk_b. rewrite firstn_chunk.
  destruct (Nat.eqb (length (cb_chunk cs)) 0) eqn:E0; [reflexivity|].
  destruct (b2z (hd x00 (cb_chunk cs)) <? dv_one_byte_below).
  - pose proof (cb_advance_flat 1 cs) as H. destruct (cb_advance 1 cs) as [cs'|].
    + destruct H as [_ H]. cbn [cres_flat]. rewrite H. destruct (concat cs); reflexivity.
    + exfalso. destruct (cb_chunk_prefix cs) as [rest E]. rewrite E, app_length in H. apply Nat.eqb_neq in E0. lia.
  - destruct ((dv_slice_len_above <? Z.of_nat (length (cb_chunk cs))) || (b2z (last (cb_chunk cs) x00) <? dv_slice_last_below)).
    + destruct (decode_varint_slice (cb_chunk cs)) as [[[v adv]|]|p]; try reflexivity.
      pose proof (cb_advance_flat adv cs) as H. destruct (cb_advance adv cs) as [cs'|].
      * destruct H as [Hle H]. cbn [cres_flat]. rewrite H.
        replace (Nat.ltb (length (concat cs)) adv) with false by (symmetry; apply Nat.ltb_ge; lia). reflexivity.
      * replace (Nat.ltb (length (concat cs)) adv) with true by (symmetry; apply Nat.ltb_lt; lia). reflexivity.
    + (* the byte-at-a-time loop: bounded by what REMAINS, as the source says (dsl_bound) *)
      unfold cdecode_varint_slow, decode_varint_slow_b. change dsl_bound with SBRemaining. cbv iota.
      unfold cb_remaining. apply cdv_slow_loop_flat.
Qed.

(* ... hence independent of the chunking: every way of cutting bs into chunks gives the value and the remaining
   bytes of the contiguous decoder, or fails with it; never a panic *)
Theorem chunk_independent cs bs : concat cs = bs -> cres_flat (cdecode_varint cs) = decode_varint_b bs.
Proof.
  intros <-. rewrite cdecode_varint_chunk, decode_varint_is_spec.
  destruct (cb_chunk cs) as [|b c] eqn:E.
  - rewrite (cb_chunk_empty _ E). reflexivity.
  - apply chunk_is_spec. cbn [length]. lia.
Qed.

Corollary chunk_independent_no_panic cs : forall p, cdecode_varint cs <> inr p.
Proof.
  intros p H. pose proof (chunk_independent cs _ eq_refl) as E. rewrite H, decode_varint_is_spec in E. discriminate E.
Qed.

(* non-vacuity: 300 = AC 02 cut between its two bytes (and with an empty chunk in between), 1 << 63 over ten one-byte
   chunks: the byte-at-a-time path across chunks *)
Example chunked_nonvacuous :
  cdecode_varint [[xac]; [x02; x07]] = inl (Some (300, [[x07]])) /\
  cdecode_varint [[xac]; []; [x02]] = inl (Some (300, [[]])) /\
  cres_flat (cdecode_varint [[x80]; [x80]; [x80]; [x80]; [x80]; [x80]; [x80]; [x80]; [x80]; [x01]]) = inl (Some (2 ^ 63, [])).
Proof. vm_compute. repeat split. Qed.

(* what the bound buys: with the loop bounded by the FIRST CHUNK instead of what remains, the same bytes are rejected *)
Example chunk_bound_would_reject :
  cdv_slow_loop (Z.to_nat (Z.min dsl_max_bytes (Z.of_nat (length (cb_chunk [[xac]; [x02]]))))) 0 0 [[xac]; [x02]] = inl None.
Proof. vm_compute. reflexivity. Qed.
