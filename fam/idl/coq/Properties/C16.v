(* C16 -- the Thrift IDL parser is total on arbitrary text.
   Only statements, each closed by [exact] of a lemma proved in Proofs/Total.v, with Print Assumptions beneath.
   [parse_file s] is the Gallina port of [File::parse] (Parser.v); its outcome type has, besides nom's three results,
   [PPanic] (a Rust panic: an unwrap on a failed conversion) and [PFuel] (loop / depth fuel exhausted). *)
From PVIdl Require Import Comb Ast Parser Proofs.Total.

(* on every byte string (a superset of all &str) the parser returns a parse result, a recoverable error or a
   failure: never a panic, and the fuel [length s + 1] handed to every loop and to the native recursion never
   runs out *)
Theorem C16_total : forall s : list byte,
  match parse_file s with
  | POk _ _ | PErr _ _ | PFail _ _ => True
  | PPanic _ | PFuel _ => False
  end.
Proof. exact parse_total. Qed.
Print Assumptions C16_total.
