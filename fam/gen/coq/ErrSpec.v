(* Specification-side definitions for C12_gen_error (generated level, error direction).  Executable Gallina only.

     elems_ok S        no container type of the schema has a void element / key / value type (seen through typedefs).
                       `void` cannot be written as an element type in Thrift IDL; it only arises as the payload of the
                       synthesised `Ok` variant of a void method's result.  A list<void> would cost no byte per element,
                       so a count that exceeds the input could be "completed" by the asynchronous decoder.
     is_message S t    t names a struct or a union (possibly through typedefs): the types for which pilota-build emits
                       `Message::decode` / `decode_async`, i.e. the entry points of decoding *)
From PVGen Require Export Gen.
Open Scope Z_scope.

Fixpoint ty_elems_ok (S : schema) (t : ty) : bool :=
  match t with
  | TyList a | TySet a => negb (is_void (resolve S a)) && ty_elems_ok S a
  | TyMap a b => negb (is_void (resolve S a)) && negb (is_void (resolve S b)) && ty_elems_ok S a && ty_elems_ok S b
  | _ => true
  end.

Definition decl_elems_ok (S : schema) (d : decl) : bool :=
  match d with
  | DStruct fs _ _ => forallb (fun f => ty_elems_ok S (f_ty f)) fs
  | DUnion vs _ _ => forallb (fun v => ty_elems_ok S (snd v)) vs
  | DTypedef t => ty_elems_ok S t
  | DEnum _ => true
  end.

Definition elems_ok (S : schema) : bool := forallb (decl_elems_ok S) S.

Definition is_message (S : schema) (t : ty) : bool :=
  match resolve S t with
  | TyRef n => match lookup S n with
               | Some (DStruct _ _ _) | Some (DUnion _ _ _) => true
               | _ => false
               end
  | _ => false
  end.

(* fuel that suffices for the asynchronous decoders on a stream of n bytes: every level of recursion of the emitted
   decode_async and of the asynchronous skipper consumes at least one byte (a field header, a container header), and
   every loop iteration costs a byte or the one bool value a compact field header may have left pending *)
Definition fuel_bound (n : nat) : nat := n + 2.
