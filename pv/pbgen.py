"""pb family, generated-message level: corpus schema, an INDEPENDENT reference protobuf codec
(written from the protobuf encoding guide, protobuf.dev/programming-guides/encoding, not from
pilota's sources), value generator, parser for Rust `{:?}` output of the generated types, glue for
the extracted Coq model runner, and the oracle entry points used by pv/props/c05,c06,c10,c18.

Pure Python 3, importable without building anything.

Canonical value shape (the same for ref_decode, debug_to_canon, parse_model_value):
  message            list, one entry per *slot* of the generated Rust struct, in struct order
  slot 's' (bare T)  value
  slot 'o' (Option)  None | value
  slot 'r' (Vec)     list of values
  slot 'm' (map)     list of (key, value) sorted by key
  slot 'u' (oneof)   None | (member_index, value)
  slot 'w'           value              (well-known wrapper pseudo messages: the single bare value)
  integer scalars    int (the numeric value of the declared type), bool = 0/1, enum = int (i32)
  float / double     ("f", 32|64, bits)   -- the IEEE bit pattern
  string / bytes     bytes
"""
import json, os, random, re, struct, sys
from fractions import Fraction

ROOT = os.path.dirname(os.path.dirname(os.path.abspath(__file__)))
PROTO_DIR = os.path.join(ROOT, "fam", "pb", "proto")
HARNESS_DIR = os.path.join(ROOT, "fam", "pb", "harness")
CACHE = os.path.join(ROOT, ".cache")

SCALARS = ["double", "float", "int32", "int64", "uint32", "uint64", "sint32", "sint64",
           "fixed32", "fixed64", "sfixed32", "sfixed64", "bool", "string", "bytes"]
NUMERIC = [t for t in SCALARS if t not in ("string", "bytes")]
MAP_KEY_TYPES = ["int32", "int64", "uint32", "uint64", "sint32", "sint64", "fixed32", "fixed64",
                 "sfixed32", "sfixed64", "bool", "string"]
# the Message impls of pilota/src/prost/types.rs, addressed after the corpus messages
WRAPPERS = [("bool", "bool"), ("u32", "uint32"), ("u64", "uint64"), ("i32", "int32"), ("i64", "int64"),
            ("f32", "float"), ("f64", "double"), ("String", "string"), ("Vec<u8>", "bytes"),
            ("Bytes", "bytes"), ("()", None)]

# ======================================================================================
# 1. a small .proto reader (the subset used by the corpus) -> <name>.schema.json
# ======================================================================================

_TOK = re.compile(r'\s+|//[^\n]*|("(?:[^"\\]|\\.)*")|([A-Za-z_][A-Za-z0-9_.]*)|(-?\d+)|([{}=;<>,\[\]()])')


def _tokens(text):
    out, pos = [], 0
    while pos < len(text):
        m = _TOK.match(text, pos)
        if not m:
            raise ValueError("proto: cannot tokenise at %r" % text[pos:pos + 30])
        pos = m.end()
        tok = m.group(1) or m.group(2) or m.group(3) or m.group(4)
        if tok is not None:
            out.append(tok)
    return out


def snake(name):
    s = re.sub(r"(?<=[a-z0-9])([A-Z])", r"_\1", name)
    return s.lower()


class _P:
    def __init__(self, toks):
        self.t, self.i = toks, 0
    def peek(self):
        return self.t[self.i] if self.i < len(self.t) else None
    def next(self):
        x = self.t[self.i]; self.i += 1; return x
    def expect(self, x):
        y = self.next()
        if y != x:
            raise ValueError("proto: expected %r, got %r (token %d)" % (x, y, self.i))


def parse_proto(text, fname):
    """returns the schema dict of one .proto file (see the checked-in *.schema.json)"""
    p = _P(_tokens(text))
    p.expect("syntax"); p.expect("=")
    syntax = p.next().strip('"'); p.expect(";")
    package = ""
    messages, enums = [], []

    def parse_enum(scope):
        name = p.next(); p.expect("{")
        vals = []
        while p.peek() != "}":
            n = p.next(); p.expect("="); v = int(p.next()); p.expect(";")
            vals.append([n, v])
        p.expect("}")
        if p.peek() == ";":
            p.next()
        enums.append(dict(name=name, full_name=".".join(scope + [name]), scope=list(scope), values=vals))

    def parse_field(label, oneof):
        ty = p.next()
        f = dict(name=None, number=None, type=None, label=label, packed=None, oneof=oneof, type_name=None, map=None)
        if ty == "map":
            p.expect("<"); k = p.next(); p.expect(","); v = p.next(); p.expect(">")
            f["type"] = "map"
            f["map"] = dict(key=k, value=v if v in SCALARS else None, value_type_name=None if v in SCALARS else v)
            f["label"] = "map"
        elif ty in SCALARS:
            f["type"] = ty
        else:
            f["type"] = "ref"; f["type_name"] = ty
        f["name"] = p.next(); p.expect("="); f["number"] = int(p.next())
        if p.peek() == "[":
            p.next(); opt = p.next(); p.expect("="); val = p.next(); p.expect("]")
            if opt != "packed":
                raise ValueError("proto: unsupported option " + opt)
            f["packed"] = (val == "true")
        p.expect(";")
        return f

    def parse_message(scope):
        name = p.next(); p.expect("{")
        m = dict(name=name, full_name=".".join(scope + [name]), scope=list(scope), fields=[], oneofs=[])
        messages.append(m)
        while p.peek() != "}":
            t = p.next()
            if t == "message":
                parse_message(scope + [name])
            elif t == "enum":
                parse_enum(scope + [name])
            elif t == "oneof":
                on = p.next(); p.expect("{")
                mem = []
                while p.peek() != "}":
                    f = parse_field("singular", on)
                    m["fields"].append(f); mem.append(f["name"])
                p.expect("}")
                m["oneofs"].append(dict(name=on, members=mem))
            elif t in ("optional", "required", "repeated"):
                m["fields"].append(parse_field(t, None))
            else:
                p.i -= 1
                m["fields"].append(parse_field("singular", None))
        p.expect("}")

    while p.peek() is not None:
        t = p.next()
        if t == "package":
            package = p.next(); p.expect(";")
        elif t == "message":
            parse_message([])
        elif t == "enum":
            parse_enum([])
        else:
            raise ValueError("proto: unexpected top-level token %r" % t)

    stem = os.path.splitext(os.path.basename(fname))[0]
    pkg = package.split(".") if package else []
    msg_names = {m["full_name"] for m in messages}
    enum_names = {e["full_name"] for e in enums}

    def resolve(ref, scope_full):
        parts = scope_full.split(".")
        for k in range(len(parts), -1, -1):
            cand = ".".join(parts[:k] + [ref])
            if cand in msg_names:
                return "message", cand
            if cand in enum_names:
                return "enum", cand
        raise ValueError("proto: unresolved type %s in %s" % (ref, scope_full))

    def rust_path(scope, name):
        return "::".join([stem] + pkg + [snake(s) for s in scope] + [name])

    for e in enums:
        e["rust_path"] = rust_path(e["scope"], e["name"])
        e["proto_name"] = ".".join(pkg + [e["full_name"]])
    for m in messages:
        m["rust_path"] = rust_path(m["scope"], m["name"])
        m["proto_name"] = ".".join(pkg + [m["full_name"]])
        for f in m["fields"]:
            if f["type"] == "ref":
                kind, full = resolve(f["type_name"], m["full_name"])
                f["type"] = kind; f["type_name"] = full
            elif f["type"] == "map" and f["map"]["value_type_name"]:
                kind, full = resolve(f["map"]["value_type_name"], m["full_name"])
                f["map"]["value"] = kind; f["map"]["value_type_name"] = full
            if syntax == "proto2" and f["label"] == "singular" and f["oneof"] is None:
                raise ValueError("proto2 field without label: " + f["name"])
    for x in messages + enums:
        del x["scope"]
    return dict(file=os.path.basename(fname), syntax=syntax, package=package, rust_mod=stem,
                enums=enums, messages=messages)


def _dump_schema(s):
    """stable, diff-friendly JSON: one field per line"""
    def j(x):
        return json.dumps(x, sort_keys=False)
    out = ["{", ' "file": %s, "syntax": %s, "package": %s, "rust_mod": %s,' %
           (j(s["file"]), j(s["syntax"]), j(s["package"]), j(s["rust_mod"])), ' "enums": [']
    out.append(",\n".join("  " + j(e) for e in s["enums"]))
    out.append(" ],")
    out.append(' "messages": [')
    ms = []
    for m in s["messages"]:
        head = '  {"name": %s, "full_name": %s, "proto_name": %s, "rust_path": %s,\n   "oneofs": %s,\n   "fields": [\n' % (
            j(m["name"]), j(m["full_name"]), j(m["proto_name"]), j(m["rust_path"]), j(m["oneofs"]))
        ms.append(head + ",\n".join("    " + j(f) for f in m["fields"]) + "\n   ]}")
    out.append(",\n".join(ms))
    out.append(" ]")
    out.append("}")
    return "\n".join(out) + "\n"


def proto_files(proto_dir=None):
    d = proto_dir or PROTO_DIR
    return sorted(os.path.join(d, f) for f in os.listdir(d) if f.endswith(".proto"))


def write_schemas(proto_dir=None):
    """(re)generates <name>.schema.json next to every corpus .proto; the JSONs are checked in"""
    done = []
    for pf in proto_files(proto_dir):
        s = parse_proto(open(pf).read(), pf)
        out = pf[:-len(".proto")] + ".schema.json"
        open(out, "w").write(_dump_schema(s))
        done.append(out)
    return done


def schemas_stale(proto_dir=None):
    """names of schema JSONs that do not correspond to their .proto any more"""
    bad = []
    for pf in proto_files(proto_dir):
        out = pf[:-len(".proto")] + ".schema.json"
        want = _dump_schema(parse_proto(open(pf).read(), pf))
        if not os.path.exists(out) or open(out).read() != want:
            bad.append(out)
    return bad


# ======================================================================================
# 2. descriptors
# ======================================================================================

class Slot:
    """one field of the generated Rust struct.
    kind 's' bare T | 'o' Option<T> | 'r' Vec<T> | 'm' map | 'u' oneof | 'w' wrapper value
    ty / kty: declared scalar type name, 'enum' or 'message'; ref: MsgDesc of a message type"""
    def __init__(self, kind, name):
        self.kind, self.name = kind, name
        self.number = None
        self.ty = None
        self.ref = None            # MsgDesc for ty == 'message'
        self.enum = None           # enum schema dict for ty == 'enum'
        self.kty = None            # map key type
        self.members = []          # oneof: list of Slot(kind 's') with number/ty/ref
        self.packed_decl = False   # what a conforming encoder puts on the wire for this repeated field
        self.packed_opt = None     # the explicit [packed=..] option, if any
        self.implicit = False      # proto3 implicit presence: a conforming encoder omits the default
        self.label = None

    def numbers(self):
        return [m.number for m in self.members] if self.kind == "u" else [self.number]


class MsgDesc:
    def __init__(self, idx, name):
        self.idx, self.name = idx, name       # name: the fully qualified proto name
        self.file = None
        self.syntax = "proto3"
        self.rust_path = None
        self.slots = []
        self.wrapper = None                   # Rust type name for the well-known wrapper impls
        self.by_number = {}                   # field number -> (slot_index, member_index or None)

    def finish(self):
        self.by_number = {}
        for si, s in enumerate(self.slots):
            if s.kind == "u":
                for mi, m in enumerate(s.members):
                    self.by_number[m.number] = (si, mi)
            elif s.number is not None:
                self.by_number[s.number] = (si, None)

    def __repr__(self):
        return "<Msg %d %s>" % (self.idx, self.name)


def _packable(ty):
    return ty in NUMERIC or ty == "enum"


def load_corpus(proto_dir=None, wrappers=True):
    """list of MsgDesc in the global index order of the driver: files sorted by name, messages of a
    file in declaration order (pre-order for nested declarations), then the wrapper pseudo types"""
    d = proto_dir or PROTO_DIR
    schemas = []
    for f in sorted(os.listdir(d)):
        if f.endswith(".schema.json"):
            schemas.append(json.load(open(os.path.join(d, f))))
    corpus, by_name, enums = [], {}, {}
    for s in schemas:
        for e in s["enums"]:
            enums[(s["file"], e["full_name"])] = e
        for m in s["messages"]:
            md = MsgDesc(len(corpus), m["proto_name"])
            md.file, md.syntax, md.rust_path = s["file"], s["syntax"], m["rust_path"]
            md._schema = m
            corpus.append(md)
            by_name[(s["file"], m["full_name"])] = md
    for md in corpus:
        m = md._schema
        seen_oneof = {}
        for f in m["fields"]:
            def fill(sl, ty, tname):
                sl.ty = ty
                if ty == "message":
                    sl.ref = by_name[(md.file, tname)]
                elif ty == "enum":
                    sl.enum = enums[(md.file, tname)]
            if f["oneof"] is not None:
                if f["oneof"] not in seen_oneof:
                    u = Slot("u", f["oneof"])
                    seen_oneof[f["oneof"]] = u
                    md.slots.append(u)            # a oneof sits at the position of its first member
                mem = Slot("s", f["name"]); mem.number = f["number"]
                fill(mem, f["type"], f["type_name"])
                seen_oneof[f["oneof"]].members.append(mem)
                continue
            if f["type"] == "map":
                sl = Slot("m", f["name"]); sl.number = f["number"]
                sl.kty = f["map"]["key"]
                fill(sl, f["map"]["value"], f["map"]["value_type_name"])
            else:
                lab = f["label"]
                if lab == "repeated":
                    kind = "r"
                elif md.syntax == "proto3":
                    kind = "o" if (lab == "optional" or f["type"] == "message") else "s"
                else:
                    kind = "o" if lab == "optional" else "s"
                sl = Slot(kind, f["name"]); sl.number = f["number"]
                fill(sl, f["type"], f["type_name"])
                if kind == "r":
                    sl.packed_opt = f["packed"]
                    if _packable(sl.ty):
                        sl.packed_decl = f["packed"] if f["packed"] is not None else (md.syntax == "proto3")
                sl.implicit = (kind == "s" and md.syntax == "proto3")
            sl.label = f["label"]
            md.slots.append(sl)
        md.finish()
    if wrappers:
        for rust, ty in WRAPPERS:
            md = MsgDesc(len(corpus), "wrapper." + rust)
            md.file, md.wrapper, md.rust_path = "-", rust, rust
            if ty is not None:
                sl = Slot("w", "value"); sl.number = 1; sl.ty = ty; sl.implicit = True
                md.slots.append(sl)
            md.finish()
            corpus.append(md)
    return corpus


def msg_by_name(corpus, name):
    for m in corpus:
        if m.name == name or m.name.endswith("." + name):
            return m
    raise KeyError(name)


def reachable(msg):
    seen, todo = {}, [msg]
    while todo:
        m = todo.pop()
        if m.idx in seen:
            continue
        seen[m.idx] = m
        for s in m.slots:
            for x in ([s] + s.members):
                if x.ref is not None:
                    todo.append(x.ref)
    return list(seen.values())


# ======================================================================================
# 3. the reference codec (protobuf encoding guide; nothing of pilota is consulted here)
# ======================================================================================
#   wire types: 0 VARINT (int32 int64 uint32 uint64 sint32 sint64 bool enum), 1 I64 (fixed64
#   sfixed64 double), 2 LEN (string bytes embedded messages packed repeated fields), 3 SGROUP,
#   4 EGROUP, 5 I32 (fixed32 sfixed32 float).  tag = (field_number << 3) | wire_type, a varint.
#   int32/int64/enum negative values are sign-extended to 64 bits (ten bytes); sintN use ZigZag;
#   fixed widths are little-endian; a map field is `repeated Entry { K key = 1; V value = 2; }`.

M64 = (1 << 64) - 1
M32 = (1 << 32) - 1
WT_VARINT, WT_I64, WT_LEN, WT_SGROUP, WT_EGROUP, WT_I32 = 0, 1, 2, 3, 4, 5
WIRE_TYPE = {"double": 1, "float": 5, "int32": 0, "int64": 0, "uint32": 0, "uint64": 0, "sint32": 0,
             "sint64": 0, "fixed32": 5, "fixed64": 1, "sfixed32": 5, "sfixed64": 1, "bool": 0,
             "string": 2, "bytes": 2, "enum": 0, "message": 2}
MAX_FIELD = (1 << 29) - 1
RECURSION_LIMIT = 100     # the documented nesting limit (pilota/src/prost/mod.rs, as in C++)


class RefError(Exception):
    def __init__(self, cls, msg=""):
        Exception.__init__(self, "%s %s" % (cls, msg))
        self.cls = cls


def F32(bits):
    return ("f", 32, bits & M32)


def F64(bits):
    return ("f", 64, bits & M64)


def enc_varint(n):
    n &= M64
    out = bytearray()
    while True:
        b = n & 0x7f
        n >>= 7
        if n:
            out.append(b | 0x80)
        else:
            out.append(b)
            return bytes(out)


def enc_tag(number, wt):
    return enc_varint((number << 3) | wt)


def zigzag(n, bits):
    mask = (1 << bits) - 1
    return ((n << 1) ^ (n >> (bits - 1))) & mask


def unzigzag(u):
    return (u >> 1) ^ -(u & 1)


def to_signed(u, bits):
    u &= (1 << bits) - 1
    return u - (1 << bits) if u >> (bits - 1) else u


def scalar_default(ty):
    if ty in ("string", "bytes"):
        return b""
    if ty == "float":
        return F32(0)
    if ty == "double":
        return F64(0)
    return 0


def enc_value(ty, v, enc_msg=None):
    """the bytes after the tag (LEN types include the length prefix)"""
    if ty in ("int32", "int64", "enum", "uint32", "uint64"):
        return enc_varint(v)                      # negative: two's complement in 64 bits
    if ty == "sint32":
        return enc_varint(zigzag(v, 32))
    if ty == "sint64":
        return enc_varint(zigzag(v, 64))
    if ty == "bool":
        return b"\x01" if v else b"\x00"
    if ty in ("fixed32", "sfixed32"):
        return struct.pack("<I", v & M32)
    if ty in ("fixed64", "sfixed64"):
        return struct.pack("<Q", v & M64)
    if ty == "float":
        return struct.pack("<I", v[2])
    if ty == "double":
        return struct.pack("<Q", v[2])
    if ty in ("string", "bytes"):
        return enc_varint(len(v)) + v
    if ty == "message":
        body = enc_msg(v)
        return enc_varint(len(body)) + body
    raise ValueError(ty)


class Style:
    """how the reference encoder lays a value out; every combination is a valid encoding.
    order         'number' ascending field number | 'decl' declaration order | 'shuffle' random
                  interleaving (records of one field / one oneof keep their relative order)
    packing       'decl' as the schema says | 'packed' | 'unpacked' | 'mixed' (random chunks, some
                  packed some not, occasionally an empty packed chunk)
    defaults      'omit' | 'present' | 'random'   proto3 implicit-presence fields holding the default
    map_defaults  'present' | 'omit' | 'random'   default key / default value inside a map entry
    map_value_first  False | True | 'random'      value record before the key record
    unknowns      0 | probability per record boundary | 'all' (one unknown field at every record
                  boundary at every nesting level, incl. inside map entries)
    split         probability that an embedded singular message is written as two records that a
                  decoder has to merge (only used by the C18 generators)"""
    def __init__(self, name="canonical", order="number", packing="decl", defaults="omit",
                 map_defaults="present", map_value_first=False, unknowns=0, split=0):
        self.name, self.order, self.packing, self.defaults = name, order, packing, defaults
        self.map_defaults, self.map_value_first, self.unknowns, self.split = map_defaults, map_value_first, unknowns, split

    def __repr__(self):
        return "<Style %s>" % self.name


CANONICAL = Style()
STYLES = [
    CANONICAL,
    Style("decl-order", order="decl"),
    Style("shuffled", order="shuffle"),
    Style("packed", packing="packed"),
    Style("unpacked", packing="unpacked"),
    Style("mixed-chunks", packing="mixed", order="shuffle"),
    Style("defaults-present", defaults="present"),
    Style("map-defaults-omitted", map_defaults="omit"),
    Style("map-value-first", map_value_first=True),
    Style("wild", order="shuffle", packing="mixed", defaults="random", map_defaults="random", map_value_first="random"),
    Style("wild-unknowns", order="shuffle", packing="mixed", defaults="random", map_defaults="random",
          map_value_first="random", unknowns=0.3),
]
STYLE_BY_NAME = {s.name: s for s in STYLES}
UNKNOWN_ALL = Style("unknowns-everywhere", unknowns="all")
PILOTA_LIKE = Style("pilota-like", order="decl", packing="unpacked", defaults="present", map_defaults="omit")


def _choose(rng, opt, a, b):
    if opt == "random":
        return rng.choice([a, b])
    return opt


def gen_unknown(msg, rng, depth=0):
    """one well-formed record with a field number the message does not declare"""
    known = msg.by_number if msg is not None else {}
    while True:
        n = rng.choice([rng.randrange(1, 64), rng.randrange(1, 4096), rng.randrange(1, MAX_FIELD + 1), MAX_FIELD, 19000])
        if n not in known:
            break
    return _unknown_record(n, rng, depth)


def _unknown_record(n, rng, depth):
    kinds = ["varint", "i64", "len", "i32"] + (["group"] * 2 if depth < 3 else [])
    k = rng.choice(kinds)
    if k == "varint":
        return enc_tag(n, 0) + enc_varint(rng.choice([0, 1, 127, 128, M64, rng.getrandbits(64)]))
    if k == "i64":
        return enc_tag(n, 1) + bytes(rng.getrandbits(8) for _ in range(8))
    if k == "i32":
        return enc_tag(n, 5) + bytes(rng.getrandbits(8) for _ in range(4))
    if k == "len":
        ln = rng.choice([0, 1, 2, 5, 127, 128, 300])
        return enc_tag(n, 2) + enc_varint(ln) + bytes(rng.getrandbits(8) for _ in range(ln))
    # a group: any records inside (their numbers may coincide with declared fields: they are
    # inside an unknown field and have to be skipped all the same), closed by EGROUP of the same number
    body = b"".join(_unknown_record(rng.choice([1, 2, 3, n, rng.randrange(1, MAX_FIELD + 1)]), rng, depth + 1)
                    for _ in range(rng.choice([0, 1, 1, 2, 3])))
    return enc_tag(n, 3) + body + enc_tag(n, 4)


def ref_records(msg, value, rng=None, style=None):
    """list of (order_group, record_bytes): order_group identifies the field (the oneof for oneof
    members) whose records must keep their relative order"""
    st = style or CANONICAL
    rng = rng or random.Random(0)
    recs = []      # (sort_number, group, bytes)

    def enc_msg(ref):
        return lambda v: ref_encode(ref, v, rng, st)

    def one(gid, number, ty, v, ref=None):
        if ty == "message" and st.split and rng.random() < st.split and len(v) > 1:
            # the same embedded message as two records, each carrying part of the slots
            a, b = split_value(ref, v, rng)
            for part in (a, b):
                recs.append((number, gid, enc_tag(number, 2) + enc_value("message", part, enc_msg(ref))))
            return
        recs.append((number, gid, enc_tag(number, WIRE_TYPE[ty]) + enc_value(ty, v, enc_msg(ref) if ref else None)))

    for si, sl in enumerate(msg.slots):
        v = value[si]
        if sl.kind in ("s", "w"):
            if sl.implicit and sl.ty != "message" and v == scalar_default(sl.ty):
                if _choose(rng, st.defaults, "omit", "present") == "omit":
                    continue
            one(si, sl.number, sl.ty, v, sl.ref)
        elif sl.kind == "o":
            if v is not None:
                one(si, sl.number, sl.ty, v, sl.ref)
        elif sl.kind == "u":
            if v is not None:
                m = sl.members[v[0]]
                one(si, m.number, m.ty, v[1], m.ref)
        elif sl.kind == "r":
            if not _packable(sl.ty):
                for x in v:
                    one(si, sl.number, sl.ty, x, sl.ref)
                continue
            mode = st.packing
            if mode == "decl":
                mode = "packed" if sl.packed_decl else "unpacked"
            if mode == "packed":
                chunks = [("p", v)] if v else []
            elif mode == "unpacked":
                chunks = [("u", [x]) for x in v]
            else:
                chunks, i = [], 0
                while i < len(v):
                    if rng.random() < 0.5:
                        k = rng.choice([1, 1, 2, 3, 7])
                        chunks.append(("p", v[i:i + k])); i += k
                    else:
                        chunks.append(("u", [v[i]])); i += 1
                    if rng.random() < 0.1:
                        chunks.append(("p", []))
                if not v and rng.random() < 0.3:
                    chunks.append(("p", []))
            for kind, xs in chunks:
                if kind == "u":
                    recs.append((sl.number, si, enc_tag(sl.number, WIRE_TYPE[sl.ty]) + enc_value(sl.ty, xs[0])))
                else:
                    body = b"".join(enc_value(sl.ty, x) for x in xs)
                    recs.append((sl.number, si, enc_tag(sl.number, 2) + enc_varint(len(body)) + body))
        elif sl.kind == "m":
            for k, x in v:
                kd = k == scalar_default(sl.kty)
                vd = (sl.ty != "message" and x == scalar_default(sl.ty))
                parts = []
                if not (kd and _choose(rng, st.map_defaults, "present", "omit") == "omit"):
                    parts.append(enc_tag(1, WIRE_TYPE[sl.kty]) + enc_value(sl.kty, k))
                if not (vd and _choose(rng, st.map_defaults, "present", "omit") == "omit"):
                    parts.append(enc_tag(2, WIRE_TYPE[sl.ty]) + enc_value(sl.ty, x, enc_msg(sl.ref) if sl.ref else None))
                if _choose(rng, st.map_value_first, False, True):
                    parts.reverse()
                parts = _with_unknowns(None, parts, rng, st, in_entry=True)
                body = b"".join(parts)
                recs.append((sl.number, si, enc_tag(sl.number, 2) + enc_varint(len(body)) + body))
    if st.order == "number":
        recs.sort(key=lambda r: r[0])          # stable: records of one field keep their order
    elif st.order == "shuffle":
        recs = _interleave_groups(recs, rng)
    out = [(g, b) for _, g, b in recs]
    if st.unknowns:
        out = _with_unknowns(msg, out, rng, st, wrap=lambda b: (-1, b))     # unknown records: group -1
    return out


def _with_unknowns(msg, parts, rng, st, in_entry=False, wrap=None):
    if not st.unknowns:
        return parts
    res = []
    def unk():
        if in_entry:
            # inside a map entry everything except numbers 1 and 2 is unknown
            b = _unknown_record(rng.choice([3, 4, 15, 16, 2047, MAX_FIELD]), rng, 1)
        else:
            b = gen_unknown(msg, rng)
        return wrap(b) if wrap else b
    for i in range(len(parts) + 1):
        if st.unknowns == "all" or rng.random() < st.unknowns:
            res.append(unk())
        if i < len(parts):
            res.append(parts[i])
    return res


def _interleave_groups(recs, rng):
    """random permutation that keeps the relative order of records with the same group"""
    groups = {}
    for r in recs:
        groups.setdefault(r[1], []).append(r)
    order = [g for g, rs in groups.items() for _ in rs]
    rng.shuffle(order)
    its = {g: iter(rs) for g, rs in groups.items()}
    return [next(its[g]) for g in order]


def ref_encode(msg, value, rng=None, style=None):
    return b"".join(b for _, b in ref_records(msg, value, rng, style))


def split_value(msg, v, rng):
    """two values whose field-wise merge is v (used to write one embedded message as two records)"""
    a, b = default_value(msg), default_value(msg)
    for si, sl in enumerate(msg.slots):
        x = v[si]
        if sl.kind == "r":
            k = rng.randrange(len(x) + 1)
            a[si], b[si] = x[:k], x[k:]
        elif sl.kind == "m":
            k = rng.randrange(len(x) + 1)
            a[si], b[si] = x[:k], x[k:]
        elif sl.kind in ("s", "w"):
            # bare fields are always written by pilota, implicit ones may be omitted by others:
            # the second record carries the real value, the first one anything
            if sl.ty != "message" and rng.random() < 0.5:
                a[si] = x
            b[si] = x
        else:
            if rng.random() < 0.5:
                a[si] = x
            else:
                b[si] = x
    return a, b


def default_value(msg):
    out = []
    for sl in msg.slots:
        if sl.kind in ("s", "w"):
            out.append(default_value(sl.ref) if sl.ty == "message" else scalar_default(sl.ty))
        elif sl.kind in ("o", "u"):
            out.append(None)
        else:
            out.append([])
    return out


# ---- decoding

class _Rd:
    def __init__(self, data, pos=0, end=None):
        self.d, self.p, self.e = data, pos, len(data) if end is None else end

    def more(self):
        return self.p < self.e

    def varint(self):
        n, shift, i = 0, 0, 0
        while True:
            if self.p >= self.e:
                raise RefError("varint", "truncated varint")
            b = self.d[self.p]; self.p += 1; i += 1
            if i == 10 and b > 1:
                raise RefError("varint", "varint does not fit 64 bits")
            n |= (b & 0x7f) << shift
            shift += 7
            if not b & 0x80:
                return n
            if i == 10:
                raise RefError("varint", "varint longer than ten bytes")

    def take(self, n):
        if n > self.e - self.p:
            raise RefError("underflow", "%d bytes wanted, %d left" % (n, self.e - self.p))
        x = self.d[self.p:self.p + n]; self.p += n
        return x

    def key(self):
        k = self.varint()
        if k > M32:
            raise RefError("key", "key %d" % k)
        wt, n = k & 7, k >> 3
        if wt > 5:
            raise RefError("wiretypevalue", "wire type %d" % wt)
        if n == 0:
            raise RefError("tagzero", "field number 0")
        return n, wt


def _skip(rd, n, wt, c, strict_unknown_depth=False):
    """skips one unknown field whose key has been read; c = remaining nesting budget"""
    if wt == WT_VARINT:
        rd.varint()
    elif wt == WT_I64:
        rd.take(8)
    elif wt == WT_I32:
        rd.take(4)
    elif wt == WT_LEN:
        rd.take(rd.varint())
    elif wt == WT_SGROUP:
        if c <= 0:
            raise RefError("recursion", "group nested too deeply")
        while True:
            if not rd.more():
                raise RefError("varint", "unterminated group")
            n2, wt2 = rd.key()
            if wt2 == WT_EGROUP:
                if n2 != n:
                    raise RefError("endgroup", "group %d closed by %d" % (n, n2))
                return
            _skip(rd, n2, wt2, c - 1)
    else:
        raise RefError("endgroup", "end group without start")


def _dec_scalar(ty, wt, rd):
    if wt != WIRE_TYPE[ty]:
        raise RefError("wiretype", "%s with wire type %d" % (ty, wt))
    if ty == "int32" or ty == "enum":
        return to_signed(rd.varint(), 32)
    if ty == "int64":
        return to_signed(rd.varint(), 64)
    if ty == "uint32":
        return rd.varint() & M32
    if ty == "uint64":
        return rd.varint()
    if ty == "sint32":
        return unzigzag(rd.varint() & M32)
    if ty == "sint64":
        return unzigzag(rd.varint())
    if ty == "bool":
        return 1 if rd.varint() else 0
    if ty == "fixed32":
        return struct.unpack("<I", rd.take(4))[0]
    if ty == "sfixed32":
        return struct.unpack("<i", rd.take(4))[0]
    if ty == "fixed64":
        return struct.unpack("<Q", rd.take(8))[0]
    if ty == "sfixed64":
        return struct.unpack("<q", rd.take(8))[0]
    if ty == "float":
        return F32(struct.unpack("<I", rd.take(4))[0])
    if ty == "double":
        return F64(struct.unpack("<Q", rd.take(8))[0])
    if ty in ("string", "bytes"):
        return bytes(rd.take(rd.varint()))
    raise ValueError(ty)


def _dec_into(msg, value, rd, c):
    """merges the records of rd into value (a canonical message value with maps as dicts)"""
    while rd.more():
        n, wt = rd.key()
        ent = msg.by_number.get(n)
        if ent is None:
            _skip(rd, n, wt, c)
            continue
        si, mi = ent
        sl = msg.slots[si]
        if sl.kind == "u":
            m = sl.members[mi]
            cur = value[si]
            if m.ty == "message":
                base = cur[1] if (cur is not None and cur[0] == mi) else _dflt(m.ref)
                value[si] = (mi, _dec_sub(m.ref, base, wt, rd, c))
            else:
                value[si] = (mi, _dec_scalar(m.ty, wt, rd))
        elif sl.kind in ("s", "w", "o"):
            if sl.ty == "message":
                base = value[si] if value[si] is not None else _dflt(sl.ref)
                value[si] = _dec_sub(sl.ref, base, wt, rd, c)
            else:
                value[si] = _dec_scalar(sl.ty, wt, rd)
        elif sl.kind == "r":
            if sl.ty == "message":
                value[si].append(_dec_sub(sl.ref, _dflt(sl.ref), wt, rd, c))
            elif _packable(sl.ty) and wt == WT_LEN:
                sub = rd.take(rd.varint())
                r2 = _Rd(sub)
                while r2.more():
                    value[si].append(_dec_scalar(sl.ty, WIRE_TYPE[sl.ty], r2))
            else:
                value[si].append(_dec_scalar(sl.ty, wt, rd))
        elif sl.kind == "m":
            if wt != WT_LEN:
                raise RefError("wiretype", "map entry with wire type %d" % wt)
            if c <= 0:
                raise RefError("recursion", "map entry nested too deeply")
            r2 = _Rd(rd.take(rd.varint()))
            k = scalar_default(sl.kty)
            v = _dflt(sl.ref) if sl.ty == "message" else scalar_default(sl.ty)
            while r2.more():
                n2, wt2 = r2.key()
                if n2 == 1:
                    k = _dec_scalar(sl.kty, wt2, r2)
                elif n2 == 2:
                    if sl.ty == "message":
                        v = _dec_sub(sl.ref, v, wt2, r2, c - 1)
                    else:
                        v = _dec_scalar(sl.ty, wt2, r2)
                else:
                    _skip(r2, n2, wt2, c - 1)
            value[si][k] = v
    return value


def _dec_sub(ref, base, wt, rd, c):
    if wt != WT_LEN:
        raise RefError("wiretype", "embedded message with wire type %d" % wt)
    if c <= 0:
        raise RefError("recursion", "message nested too deeply")
    sub = rd.take(rd.varint())
    return _dec_into(ref, base, _Rd(sub), c - 1)


def _dflt(msg):
    """default value in decoder-internal form (maps as dicts)"""
    out = []
    for sl in msg.slots:
        if sl.kind in ("s", "w"):
            out.append(_dflt(sl.ref) if sl.ty == "message" else scalar_default(sl.ty))
        elif sl.kind in ("o", "u"):
            out.append(None)
        elif sl.kind == "m":
            out.append({})
        else:
            out.append([])
    return out


def _to_internal(msg, v):
    out = []
    for sl, x in zip(msg.slots, v):
        if sl.kind == "m":
            out.append({k: (_to_internal(sl.ref, y) if sl.ty == "message" else y) for k, y in x})
        elif sl.kind == "u":
            if x is not None and sl.members[x[0]].ty == "message":
                x = (x[0], _to_internal(sl.members[x[0]].ref, x[1]))
            out.append(x)
        elif sl.ty == "message":
            if sl.kind == "r":
                out.append([_to_internal(sl.ref, y) for y in x])
            else:
                out.append(None if x is None else _to_internal(sl.ref, x))
        else:
            out.append(list(x) if sl.kind == "r" else x)
    return out


def _key_sort(k):
    return (0, k) if isinstance(k, int) else (1, k)


def _to_canon(msg, v):
    out = []
    for sl, x in zip(msg.slots, v):
        if sl.kind == "m":
            items = [(k, (_to_canon(sl.ref, y) if sl.ty == "message" else y)) for k, y in x.items()]
            items.sort(key=lambda kv: _key_sort(kv[0]))
            out.append(items)
        elif sl.kind == "u":
            if x is not None and sl.members[x[0]].ty == "message":
                x = (x[0], _to_canon(sl.members[x[0]].ref, x[1]))
            out.append(x)
        elif sl.ty == "message":
            if sl.kind == "r":
                out.append([_to_canon(sl.ref, y) for y in x])
            else:
                out.append(None if x is None else _to_canon(sl.ref, x))
        else:
            out.append(x)
    return out


def ref_decode(msg, data, into=None, limit=RECURSION_LIMIT):
    """canonical value of the wire bytes (raises RefError(cls)): last one wins for singular
    scalars, repeated fields append (packed or not), map entries replace equal keys, a later oneof
    member replaces an earlier one (the same message member merges), embedded messages merge
    field-wise, unknown fields (incl. groups) are skipped.  `into`: canonical value to merge into"""
    base = _to_internal(msg, into) if into is not None else _dflt(msg)
    return _to_canon(msg, _dec_into(msg, base, _Rd(bytes(data)), limit))


def ref_try(msg, data, into=None):
    try:
        return ("ok", ref_decode(msg, data, into))
    except RefError as e:
        return ("err", e.cls)


def ref_merge_spec(msg, x, y, omit_defaults=False):
    """value-level statement of protobuf merge: the value of decode(enc(x) ++ enc(y)).
    omit_defaults=False: every bare ('s') field of y is on the wire (what pilota's encoder does, and
    what proto2 `required` demands), so y's value wins; True: a conforming proto3 encoder left the
    implicit-presence fields of y that hold the default off the wire, so x's value stays.
    Wrapper pseudo messages always omit the default."""
    out = []
    for sl, a, b in zip(msg.slots, x, y):
        if sl.kind in ("s", "w"):
            if sl.ty == "message":
                out.append(ref_merge_spec(sl.ref, a, b, omit_defaults))
            elif (sl.kind == "w" or (omit_defaults and sl.implicit)) and b == scalar_default(sl.ty):
                out.append(a)
            else:
                out.append(b)
        elif sl.kind == "o":
            if b is None:
                out.append(a)
            elif sl.ty == "message" and a is not None:
                out.append(ref_merge_spec(sl.ref, a, b, omit_defaults))
            else:
                out.append(b)
        elif sl.kind == "r":
            out.append(list(a) + list(b))
        elif sl.kind == "m":
            d = dict(a)
            d.update(dict(b))                 # a later entry replaces an earlier one with an equal key
            out.append(sorted(d.items(), key=lambda kv: _key_sort(kv[0])))
        elif sl.kind == "u":
            if b is None:
                out.append(a)
            elif a is not None and a[0] == b[0] and sl.members[b[0]].ty == "message":
                out.append((b[0], ref_merge_spec(sl.members[b[0]].ref, a[1], b[1], omit_defaults)))
            else:
                out.append(b)
    return out


def compare(a, b):
    """None when the canonical values are equal, else a path + description of the first difference.
    Floats are compared as bit patterns, except that any NaN equals any NaN (Rust's {:?} prints
    only `NaN`, and a model may canonicalise the payload)."""
    return _cmp(a, b, "")


def _isnan(f):
    if f[1] == 32:
        return (f[2] & 0x7f800000) == 0x7f800000 and (f[2] & 0x7fffff) != 0
    return (f[2] & 0x7ff0000000000000) == 0x7ff0000000000000 and (f[2] & 0xfffffffffffff) != 0


def _cmp(a, b, path):
    fa = isinstance(a, tuple) and len(a) == 3 and a[0] == "f"
    fb = isinstance(b, tuple) and len(b) == 3 and b[0] == "f"
    if fa or fb:
        if fa and fb and a[1] == b[1] and (a[2] == b[2] or (_isnan(a) and _isnan(b))):
            return None
        return "%s: %r != %r" % (path or ".", a, b)
    if isinstance(a, (list, tuple)) and isinstance(b, (list, tuple)):
        if len(a) != len(b):
            return "%s: %d elements != %d elements" % (path or ".", len(a), len(b))
        for i, (x, y) in enumerate(zip(a, b)):
            r = _cmp(x, y, "%s/%d" % (path, i))
            if r:
                return r
        return None
    if type(a) != type(b) and not (isinstance(a, int) and isinstance(b, int)):
        return "%s: %r != %r" % (path or ".", _short(a), _short(b))
    if a != b:
        return "%s: %r != %r" % (path or ".", _short(a), _short(b))
    return None


def _short(x):
    s = repr(x)
    return s if len(s) < 80 else s[:77] + "..."
